"""C05 - allocating cash to a security respects the budget, costs included.

Real code executed: SecurityBase.allocate / outlay / commission / transact / update, StrategyBase.adjust / update.
Symbolic: amount, prior position (Int in whole-unit mode), parent capital.  Grid: price x multiplier x spread x fee family."""
from harness.common import EPS_MONEY, NAN, bt, dates, fee_fn, fee_val, frame

GRID_P = [37.5, 100.0, 0.625, 812.75]
GRID_M = [1.0, 10.0, 0.5]
GRID_S = [None, 0.0, 0.5, 1.25]
# fee parameters obey "non-decreasing in size, smaller than the unit price" for every price*multiplier in the grid they are paired with
FEES = [('none', None), ('fixed', 1.0), ('fixed', 0.125), ('pershare', 0.0625), ('prop', 0.001953125), ('prop', 0.125), ('maxfixed', (1.0, 0.0625))]

BOUNDS = {
    'quick': 'price x multiplier x spread x fee family grid (48 points) x {fractional, whole-unit}; amount in [-1e6,1e6], prior position in [-1e4,1e4] '
             '(Int in whole-unit mode), capital in [0,1e7]; sizing loop unrolled by forking up to 600 decisions per path; '
             'fully symbolic price/fee NOT claimed (non-linear)',
    'thorough': 'full grid 4 prices x 3 multipliers x 4 spreads x 7 fee settings x 2 modes; same symbolic ranges',
}
ASSUMPTIONS = ['half bid/offer spread <= 1/8 of the unit price (a spread of the order of the price makes the sizing search diverge; outside the claim)',
               'commission function from the parametric families none / fixed c / a|q| / b|q|p / max(c, a|q|) with fee per unit <= 1/4 unit price',
               'price, multiplier, spread from dyadic grids; amount, prior position, capital symbolic']


def _setup(run, cfg, price_d0=None):
    B = bt()
    p, m, sp = cfg['p'], cfg['m'], cfg['s']
    dts = dates(2)
    data = frame(run, dts, ['a'], lambda i, c: (p if price_d0 is None else price_d0))
    sec = B.core.SecurityBase('a', multiplier=m)
    s = B.core.StrategyBase('s', [sec])
    s.use_integer_positions(bool(cfg['int']))
    f = fee_fn(cfg['fee'][0], cfg['fee'][1])
    if f is not None:
        s.set_commissions(f)
    kw = {}
    if sp is not None:
        kw['bidoffer'] = frame(run, dts, ['a'], lambda i, c: sp)
    s.setup(data, **kw)
    s.update(dts[0])
    return s, s['a'], dts


def _cost(cfg, q):
    p, m, sp = cfg['p'], cfg['m'], cfg['s'] or 0.0
    return q * p * m + abs(q) * 0.5 * sp * m + fee_val(cfg['fee'][0], cfg['fee'][1], q, p * m)


def h_alloc(run, cfg):
    """Budget / maximality / exactness / no spurious exception, from an arbitrary prior position."""
    s, sec, dts = _setup(run, cfg)
    integer = bool(cfg['int'])
    cap = run.real('cap', 1000, 10 ** 7) if not integer else run.integer('cap', 1000, 10 ** 7)
    s.adjust(cap)
    pos0 = run.integer('pos0', -10 ** 4, 10 ** 4) if integer else run.real('pos0', -10 ** 4, 10 ** 4)
    sec.transact(pos0)
    s.update(dts[0])
    run.assume(s.value >= 100)        # the root stays solvent (bankruptcy liquidation is C16's subject)
    amount = run.integer('amount', -10 ** 6, 10 ** 6) if integer else run.real('amount', -10 ** 6, 10 ** 6)
    cap0 = s.capital
    val0 = sec.value
    pos_before = sec.position
    try:
        sec.allocate(amount)
        s.update(dts[0])
    except Exception as e:
        run.fail('no-exception', 'allocate raised %r' % (e,))
    if s.bankrupt:
        run.end('bankrupt')
    q = sec.position - pos_before
    spent = cap0 - s.capital
    run.note('q', q)
    run.note('pos_before', pos_before)
    traded = bool(abs(q) >= 1e-16)          # bt executes any quantity that is not is_zero
    # the recorded cash movement is the full outlay of the executed quantity
    if run.mode != 'sym' and not traded and abs(spent) > EPS_MONEY:
        # float resolution: a trade smaller than the ulp of the position cannot be seen in the position difference (e.g. -158.25 + 3e-12); the
        # cash leg shows that bt traded - it must then be the cost of such a near-zero trade
        near = min(abs(spent - _cost(cfg, 1e-12)), abs(spent - _cost(cfg, -1e-12)))
        run.check(near <= EPS_MONEY, 'spent-is-full-outlay', 'position unchanged in floats, cash moved by %r' % (spent,))
    else:
        run.check_near(spent, _cost(cfg, q) if traded else 0.0, EPS_MONEY, 'spent-is-full-outlay')
    closing = bool(abs(amount + val0) < 1e-16)     # bt's own close-out test (is_zero)
    if closing:
        run.check_near(sec.position, 0.0, 1e-9, 'closeout-flat')
        return
    if bool(abs(amount) < 1e-16):
        run.check(not traded, 'zero-amount-noop')
        return
    run.check_le(spent, amount, EPS_MONEY, 'budget')
    if integer:
        if run.mode == 'sym':
            import z3
            from symbt.sym import SymBool, lift
            run.check(SymBool(z3.IsInt(lift(q).z())), 'whole-units')
        else:
            run.check(abs(q - round(q)) < 1e-9, 'whole-units')
        # maximal: one more unit would not fit
        run.check(_cost(cfg, q + 1) > amount - EPS_MONEY, 'maximal')
    elif traded:
        run.check_near(spent, amount, EPS_MONEY, 'exact-spend')


def h_closeout(run, cfg):
    """amount == -value closes the position completely (whatever the costs)."""
    s, sec, dts = _setup(run, cfg)
    integer = bool(cfg['int'])
    s.adjust(run.real('cap', 1000, 10 ** 7) if not integer else run.integer('cap', 1000, 10 ** 7))
    pos0 = run.integer('pos0', -10 ** 4, 10 ** 4) if integer else run.real('pos0', -10 ** 4, 10 ** 4)
    sec.transact(pos0)
    s.update(dts[0])
    run.assume(s.value >= 100)
    try:
        sec.allocate(-sec.value)
        s.update(dts[0])
    except Exception as e:
        run.fail('no-exception', 'allocate(-value) raised %r' % (e,))
    if s.bankrupt:
        run.end('bankrupt')
    run.check_near(sec.position, 0.0, 1e-9, 'closeout-flat')
    run.check_near(sec.value, 0.0, 1e-9, 'closeout-value')


def h_zero(run, cfg):
    """a zero amount does nothing."""
    s, sec, dts = _setup(run, cfg)
    integer = bool(cfg['int'])
    s.adjust(1e9)
    pos0 = run.integer('pos0', -10 ** 4, 10 ** 4) if integer else run.real('pos0', -10 ** 4, 10 ** 4)
    sec.transact(pos0)
    s.update(dts[0])
    cap0 = s.capital
    pos_before = sec.position
    for amt in (0.0, 1e-17, -1e-17):
        sec.allocate(amt)
        s.update(dts[0])
        run.check(sec.position == pos_before, 'zero-amount-noop')
        run.check(s.capital == cap0, 'zero-amount-cash')


def h_zero_at_zero_price(run, cfg):
    """a zero amount does nothing - also when the price of a held security is exactly zero"""
    B = bt()
    dts = dates(2)
    data = frame(run, dts, ['a'], lambda i, c: cfg['p'] if i == 0 else 0.0)
    s = B.core.StrategyBase('s', [B.core.SecurityBase('a', multiplier=cfg['m'])])
    integer = bool(cfg['int'])
    s.use_integer_positions(integer)
    s.setup(data)
    s.update(dts[0])
    s.adjust(1e9)
    pos0 = run.integer('pos0', -10 ** 4, 10 ** 4) if integer else run.real('pos0', -10 ** 4, 10 ** 4)
    s['a'].transact(pos0)
    s.update(dts[0])
    s.update(dts[1])
    before, cap0 = s['a'].position, s.capital
    for amt in (0.0, 1e-17):
        try:
            s['a'].allocate(amt)
            s.allocate(amt, 'a')
            s.update(dts[1])
        except Exception as e:
            run.fail('zero-amount-noop', 'raised %r' % (e,))
        run.check(s['a'].position == before, 'zero-amount-noop', 'position %r -> %r at price 0' % (before, s['a'].position))
        run.check(s.capital == cap0, 'zero-amount-cash')


def h_badprice(run, cfg):
    """a trade at a missing or zero price is refused with an error."""
    for bad in (0.0, NAN):
        s, sec, dts = _setup(run, cfg, price_d0=bad)
        s.adjust(100000.0)
        amount = run.real('amount_%s' % ('z' if bad == 0.0 else 'n'), -10 ** 6, 10 ** 6)
        run.assume(abs(amount) >= 1e-9)
        try:
            sec.allocate(amount)
        except Exception:
            continue
        run.fail('badprice-refused', 'allocate at price %r did not raise' % bad)
    run.check(True, 'badprice-refused')


def h_modes(run, cfg):
    """whole-unit mode is a property of the strategy that trades: a sub-strategy switched to a mode different from its parent's sizes its own
    securities - those named by a string and created on first use included - in ITS mode"""
    B = bt()
    C = B.core
    from harness.common import dates, frame
    dts = dates(2)
    p = 100.0
    data = frame(run, dts, ['a', 'b'], lambda i, c: p if c == 'a' else 40.0)
    kids = ['a', 'b'] if cfg['lazy'] else [C.Security('a'), C.Security('b')]
    sub = C.Strategy('sub', [], kids)
    root = C.Strategy('root', [], [sub])
    root.use_integer_positions(bool(cfg['root_int']))
    root.setup(data)
    sub = root['sub']
    sub.use_integer_positions(bool(cfg['sub_int']))
    root.update(dts[0])
    root.adjust(1000000.0)
    root.allocate(500000.0, 'sub')
    root.update(dts[0])
    x = run.real('x', 150, 5000)
    sub.allocate(x, 'a')
    root.update(dts[0])
    q = sub['a'].position
    if cfg['sub_int']:
        # whole units, never more than the amount, and one more unit would not fit
        run.check(sub['a'].integer_positions, 'child-trades-in-its-strategys-mode', 'integer flag %r' % sub['a'].integer_positions)
        run.check_le(q * p, x, EPS_MONEY, 'budget')
        run.check_le(x - p, q * p, EPS_MONEY, 'maximal-whole-units', 'position %r for amount %r' % (q, x))
        if run.mode == 'sym':
            import z3
            from symbt.sym import SymBool, lift
            run.check(SymBool(z3.IsInt(lift(q).z())), 'whole-units')
        else:
            run.check(abs(q - round(q)) < 1e-9, 'whole-units', 'position %r' % (q,))
    else:
        run.check(not sub['a'].integer_positions, 'child-trades-in-its-strategys-mode', 'integer flag %r' % sub['a'].integer_positions)
        run.check_near(q * p, x, EPS_MONEY, 'spent-is-full-outlay', 'fractional sub-strategy under a whole-unit root: position %r for %r' % (q, x))


HARNESSES = {'modes': h_modes, 'alloc': h_alloc, 'closeout': h_closeout, 'zero': h_zero, 'badprice': h_badprice, 'zero_at_zero_price': h_zero_at_zero_price}
DECIMAL_REPLAYS = {'quick': 3, 'thorough': 6}      # the sizing search on two-decimal amounts (solver models are dyadic: floats exact there)


def _ok(p, m, fee, sp=None):
    """keep only cost settings that are small against the unit price: fee per unit <= 1/4, half-spread <= 1/8 of it"""
    kind, par = fee
    unit = p * m
    if sp is not None and 0.5 * sp * m > unit / 8:
        return False
    if kind == 'fixed':
        return par <= unit / 4
    if kind == 'pershare':
        return par <= unit / 4
    if kind == 'maxfixed':
        return par[1] <= unit / 4 and par[0] <= unit / 4
    return True


def plan(tier):
    tasks = []
    if tier == 'quick':
        allp = [(p, m, sp, fee) for p in GRID_P for m in GRID_M for sp in GRID_S for fee in FEES if _ok(p, m, fee, sp)]
        pts = allp[::11][:24]
    else:
        pts = [(p, m, sp, fee) for p in GRID_P for m in GRID_M for sp in GRID_S for fee in FEES if _ok(p, m, fee, sp)]
    for (p, m, sp, fee) in pts:
        for integer in (0, 1):
            cfg = dict(p=p, m=m, s=sp, fee=list(fee), int=integer)
            tasks.append(dict(harness='alloc', cfg=cfg))
    side = pts[:6] if tier == 'quick' else pts[::5]
    for (p, m, sp, fee) in side:
        for integer in (0, 1):
            cfg = dict(p=p, m=m, s=sp, fee=list(fee), int=integer)
            tasks.append(dict(harness='closeout', cfg=cfg))
            tasks.append(dict(harness='zero', cfg=cfg))
    for root_int, sub_int in ((1, 0), (0, 1), (1, 1), (0, 0)):
        for lazy in (1, 0):
            tasks.append(dict(harness='modes', cfg=dict(root_int=root_int, sub_int=sub_int, lazy=lazy)))
    for integer in (0, 1):
        tasks.append(dict(harness='zero_at_zero_price', cfg=dict(p=100.0, m=1.0, s=None, fee=['none', None], int=integer)))
        tasks.append(dict(harness='badprice', cfg=dict(p=100.0, m=1.0, s=None, fee=['none', None], int=integer)))
        tasks.append(dict(harness='badprice', cfg=dict(p=100.0, m=10.0, s=0.5, fee=['fixed', 1.0], int=integer)))
    return tasks
