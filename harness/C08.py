"""C08 - updates are idempotent, reads are fresh, history is append-only.

After a symbolic operation history (C01 machinery, last operation left un-synced):
  fresh reads : for every public accessor A, deep-copy the (stale) tree twice; read A directly in one copy, update then read A in the
                other; prove equality cell by cell;
  idempotence : snapshot every accessor, call update(now) 1..3 more times, prove the snapshot unchanged;
  append-only : rows dated before `now`, captured when the clock moved, are identical terms at the end; no accessor's series extends past `now`."""
import copy
import itertools

from harness import opslib as O
from harness.common import EPS_MONEY, bt

BOUNDS = {
    'quick': 'shapes S1, S3, SC; arbitrary prior portfolio + K=2 operation sequences (second operation left un-synced), 3-4 dates; every public accessor of '
             'every node: value, weight, price, notional_value, capital, prices, values, notional_values, cash, fees, flows, bidoffer(s)_paid, positions, '
             'outlays, position, bidoffer, coupon(s), holding_cost(s), strategy-level positions/outlays frames',
    'thorough': 'adds S4, all S1 sequences in both position modes',
}
ASSUMPTIONS = ['paths on which the root goes bankrupt end (liquidation is C16)', 'deep copies of a set-up tree are taken with copy.deepcopy']

SCALARS_STRAT = ['value', 'weight', 'price', 'notional_value', 'capital']
SERIES_STRAT = ['prices', 'values', 'notional_values', 'cash', 'fees', 'flows']
SCALARS_SEC = ['value', 'weight', 'price', 'notional_value', 'position', 'bidoffer']
SERIES_SEC = ['prices', 'values', 'notional_values', 'positions', 'outlays']


def accessors(w, n):
    C = bt().core
    if isinstance(n, C.StrategyBase):
        sc, se = list(SCALARS_STRAT), list(SERIES_STRAT)
        if w.spread_on:
            sc.append('bidoffer_paid')
            se.append('bidoffers_paid')
    else:
        sc, se = list(SCALARS_SEC), list(SERIES_SEC)
        if w.spread_on:
            sc.append('bidoffer_paid')
            se += ['bidoffers_paid', 'bidoffers']
        if isinstance(n, C.CouponPayingSecurity):
            sc += ['coupon', 'holding_cost']
            se += ['coupons', 'holding_costs']
    return sc, se


def read(n, name):
    v = getattr(n, name)
    if hasattr(v, 'index'):
        return [('%s' % i, v.iloc[k]) for k, i in enumerate(v.index)]
    return v


def same(run, a, b, label, detail):
    if isinstance(a, list):
        run.check(len(a) == len(b), label + '/len', detail)
        for (ia, va), (ib, vb) in zip(a, b):
            if (isinstance(va, float) and va != va) and (isinstance(vb, float) and vb != vb):
                continue
            run.check_near(va, vb, EPS_MONEY, label, '%s @%s' % (detail, ia))
    else:
        if (isinstance(a, float) and a != a) and (isinstance(b, float) and b != b):
            return
        run.check_near(a, b, EPS_MONEY, label, detail)


def digest(root):
    """light whole-tree digest: root value/cash rows and every security's position rows"""
    C = bt().core
    out = []
    for nm in ('_values', '_cash', '_prices'):
        ser = getattr(root, nm)
        out += [('%s@%s' % (nm, i), ser.iloc[k]) for k, i in enumerate(ser.index)]
    for m in root.members:
        if isinstance(m, C.SecurityBase):
            ser = m._positions
            out += [('%s.pos@%s' % (m.full_name, i), ser.iloc[k]) for k, i in enumerate(ser.index)]
    return out


def path_of(n):
    p = []
    while n.parent is not n:
        p.append(n.name)
        n = n.parent
    return '/'.join(reversed(p))


def h_fresh(run, cfg):
    w = O.build(run, cfg)
    O.fund(run, w, prior=True)
    root = w.root
    ops = cfg['ops']
    hist = {}        # rows captured when the clock moved: (node path, series, date) -> term

    RAW = {'prices': '_prices', 'values': '_values', 'notional_values': '_notl_values', 'cash': '_cash', 'fees': '_fees', 'flows': '_all_flows',
           'positions': '_positions', 'outlays': '_outlays', 'bidoffers_paid': '_bidoffers_paid', 'coupons': '_coupon_income', 'holding_costs': '_holding_costs'}

    def capture():
        # rows recorded so far, read from the backing series (an accessor would refresh a lagging security and disturb the state under test)
        now = root.now
        for n in root.members:
            sc, se = accessors(w, n)
            for name in se:
                raw = getattr(n, RAW.get(name, ''), None) if name in RAW else None
                if raw is None or not hasattr(raw, 'index'):
                    continue
                for k2, i in enumerate(raw.index):
                    if now != 0 and i < now:
                        hist.setdefault((path_of(n), name, '%s' % i), raw.iloc[k2])

    def after(k, op, info):
        if op[0] == 'next':
            pass
    # all but the last operation through the normal (synced) path
    for k, op in enumerate(ops[:-1]):
        try:
            if op[0] == 'next':
                O.sync(w)
                capture()
            O.apply_op(run, w, k, op)
            root.value
        except Exception as e:
            run.end('raised')
    if root.bankrupt:
        run.end('bankrupt')
    O.sync(w)
    capture()
    # last operation: leave the tree un-synced (pending changes)
    try:
        if ops[-1][0] == 'next':
            O.sync(w)
        O.apply_op(run, w, len(ops) - 1, ops[-1])
    except Exception as e:
        run.end('raised')
    now = root.now
    npos = list(root.data.index).index(now) + 1
    # ---- fresh reads, one accessor at a time on two deep copies of the stale tree (direct read vs explicit update then read)
    only = cfg.get('fresh_nodes')
    for n in root.members:
        if only is not None and path_of(n) not in only:
            continue
        sc, se = accessors(w, n)
        pth = path_of(n)
        for name in sc + se:
            try:
                r1 = copy.deepcopy(root)
                r2 = copy.deepcopy(root)
                a = read(O.node_of(r1, pth), name)
                r2.update(r2.now)
                b = read(O.node_of(r2, pth), name)
            except Exception as e:
                run.end('raised')
            if r1.bankrupt or r2.bankrupt:
                run.end('bankrupt')
            same(run, a, b, 'fresh-read:' + name, '%s.%s' % (n.full_name, name))
            # the read itself must leave the tree exactly as an explicit update does (clock, recorded rows)
            if cfg.get('digest'):
                try:
                    r1.update(r1.now)
                except Exception:
                    run.end('raised')
            run.check(r1.now == r2.now, 'read-leaves-clock-alone:' + name, '%s.%s moved now to %s (expected %s)' % (n.full_name, name, r1.now, r2.now))
            if cfg.get('digest'):
                same(run, digest(r1), digest(r2), 'read-equals-explicit-update:' + name, 'tree after reading %s.%s' % (n.full_name, name))
            if isinstance(a, list):
                run.check(len(a) <= npos, 'series-not-beyond-now:' + name, '%s.%s has %d rows, now is row %d' % (n.full_name, name, len(a), npos))
    # ---- idempotence
    try:
        root.update(now)
    except Exception:
        run.end('raised')
    if root.bankrupt:
        run.end('bankrupt')
    snap = {}
    for n in root.members:
        sc, se = accessors(w, n)
        for name in sc + se:
            snap[(path_of(n), name)] = read(n, name)
    for rep in range(int(cfg.get('reps', 2))):
        root.update(now)
        for n in root.members:
            sc, se = accessors(w, n)
            for name in sc + se:
                same(run, read(n, name), snap[(path_of(n), name)], 'idempotent-update:' + name, '%s.%s after %d extra update(s)' % (n.full_name, name, rep + 1))
    # ---- append-only: rows captured at earlier clock positions are unchanged
    for (pth, name, i), v in hist.items():
        if i >= str(now):
            continue
        n = O.node_of(root, pth)
        cur = dict(read(n, name)).get(i)
        if cur is None:
            run.fail('append-only:' + name, 'row %s of %s.%s disappeared' % (i, pth, name))
        if (isinstance(v, float) and v != v) and (isinstance(cur, float) and cur != cur):
            continue
        run.check_near(cur, v, EPS_MONEY, 'append-only:' + name, '%s.%s @%s' % (pth, name, i))


class Memo:
    """hands the same symbolic input to both worlds of a relational run (inputs are looked up by name)"""
    def __init__(self, run):
        self._run = run
        self._c = {}
        self.mode = run.mode

    def _get(self, kind, name, *a):
        key = (kind, name)
        if key not in self._c:
            self._c[key] = getattr(self._run, kind)(name, *a)
        return self._c[key]

    def real(self, name, lo, hi):
        return self._get('real', name, lo, hi)

    def integer(self, name, lo, hi):
        return self._get('integer', name, lo, hi)

    def uf(self, name, arity=2):
        return self._get('uf', name, arity)

    def __getattr__(self, k):
        return getattr(self._run, k)


def h_redundant(run, cfg):
    """the same operation history with and without redundant update(now) calls sprinkled in ends in the same observable state"""
    memo = Memo(run)
    worlds = []
    for extra in (0, int(cfg.get('extra', 2))):
        w = O.build(memo, cfg)
        O.fund(memo, w, prior=True)
        root = w.root
        for k, op in enumerate(cfg['ops']):
            try:
                O.apply_op(memo, w, k, op)
                if not (cfg.get('quiet') and extra == 0):
                    root.value                 # quiet: the first world applies the operations back to back, nothing is read in between
                for _ in range(extra):
                    root.update(root.now)
            except Exception as e:
                run.end('raised')
        try:
            root.update(root.now)
        except Exception:
            run.end('raised')
        if root.bankrupt:
            run.end('bankrupt')
        worlds.append(w)
    wa, wb = worlds
    for n in wa.root.members:
        pth = path_of(n)
        m = O.node_of(wb.root, pth)
        sc, se = accessors(wa, n)
        for name in sc + se:
            same(run, read(m, name), read(n, name), 'redundant-updates-change-nothing:' + name, '%s.%s' % (n.full_name, name))


HARNESSES = {'fresh': h_fresh, 'redundant': h_redundant}
WITNESS_CAP = {'quick': 100, 'thorough': 250}


def plan(tier):
    from harness.C01 import _cfgs, WMULT as WM
    from harness.C02 import alphabet
    quick = tier == 'quick'
    opts = dict(max_paths=2500, timeout_ms=5000 if quick else 20000)
    tasks = []
    for shape in (['S1', 'SC', 'S3'] if quick else ['S1', 'SC', 'S3', 'S4']):
        al = [op for op in alphabet(shape) if op[0] != 'rebal' and not (quick and op[0] == 'alloc' and len(op) == 2 and op[1] in ('a', 'c'))] + [['update']]
        seqs = list(itertools.product(al, repeat=2))
        for integer in (0, 1):
            sel = seqs
            if quick:
                sel = seqs[integer::7] if shape == 'S1' else (seqs[integer::17] if not integer else seqs[2::37])
            for seq in sel:
                if seq[1][0] in ('update',):
                    continue
                if quick and any(tuple(op[:2]) in WM for op in seq):
                    continue          # several hundred paths each; thorough tier only
                for cfg in _cfgs(shape, seq, integer, tier)[:1]:
                    if shape == 'SC':
                        cfg.update(ndates=4)
                    if shape in ('S3', 'S4') and quick:
                        cfg.update(fresh_nodes=['', 'sub', 'sub/a'])
                    tasks.append(dict(harness='fresh', cfg=cfg, opts=opts))
    # sequences that must always be present: a date change followed by an un-synced trade / adjustment (flat securities lag the clock)
    must = [(['next'], ['transact', 'b']), (['next'], ['adjust']), (['next'], ['transact', 'a'])]
    for seq in must:
        for integer in (0, 1):
            for cfg in _cfgs('S1', seq, integer, tier)[:1]:
                tasks.append(dict(harness='fresh', cfg=cfg, opts=opts))
    for seq in ((['transact', 'b', 'sub'], ['flatten', 'sub']), (['next'], ['flatten', 'sub']), (['alloc', 'a', 'sub'], ['close', 'sub'])):
        for cfg in _cfgs('S3', seq, 0, tier)[:1]:
            cfg.update(fresh_nodes=['', 'sub', 'sub/a', 'sub/b'])
            tasks.append(dict(harness='fresh', cfg=cfg, opts=opts))
    # relational: with vs without redundant updates between the operations
    rseqs = [(['close', 'b'], ['transact', 'a']), (['transact', 'b'], ['close', 'b']), (['transact', 'a'], ['next'], ['transact', 'b']), (['adjust'], ['flatten']),
             (['next'], ['close', 'a'], ['transact', 'b']), (['alloc', 'a'], ['close', 'a'])]
    for seq in rseqs:
        for integer in ((0,) if quick else (0, 1)):
            for cfg in _cfgs('S1', seq, integer, 'thorough')[:1]:
                cfg.update(extra=2)
                tasks.append(dict(harness='redundant', cfg=cfg, opts=opts))
    for seq in ((['close', 'sub'], ['transact', 'c']), (['transact', 'b', 'sub'], ['flatten', 'sub'])):
        for cfg in _cfgs('S3', seq, 0, 'thorough')[:1]:
            cfg.update(extra=1)
            tasks.append(dict(harness='redundant', cfg=cfg, opts=opts))
    # operations applied back to back (no read in between) vs the same history with an update after each: an operation's own inputs must be fresh
    for seq in ((['transact', 'a'], ['rebal_base', 'a', 0.75, 1000000.0]), (['alloc', 'a'], ['rebal_base', 'a', 0.25, 2000000.0]),
                (['transact', 'b'], ['rebal_base', 'b', -0.25, 1000000.0]), (['adjust'], ['rebal_base', 'a', 0.5, 1000000.0]), (['transact', 'a'], ['close', 'a']),
                (['transact', 'b'], ['flatten'])):
        fee = ['prop', 0.001953125] if seq[0][0] == 'alloc' else ['uf']
        cfg = dict(shape='S1', int=0, fee=['none', None], spread=0, ops=[list(o) for o in seq], mult=1, extra=1, quiet=1)
        tasks.append(dict(harness='redundant', cfg=cfg, opts=opts))
    # fixed-income tree with a zero-price episode, no commission, no bid/offer: zero-cost trades must still refresh notionals and weights
    fseqs = [(['next'], ['transact', 'a']), (['next'], ['transact', 'b']), (['transact', 'a'], ['transact', 'c']), (['next'], ['adjust'])]
    for seq in (fseqs[:1] if quick else fseqs):
        for integer in ((0,) if quick else (0, 1)):
            cfg = dict(shape='F1', int=integer, fee=['none', None], spread=0, ops=[list(o) for o in seq], mult=1, pgrid='zeroa', ndates=4,
                       fresh_nodes=['', 'a', 'c'])
            tasks.append(dict(harness='fresh', cfg=cfg, opts=opts))
    return tasks
