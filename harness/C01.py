"""C01 - balance-sheet identity at every node, after every operation of symbolic operation sequences.

Pre-state: arbitrary synced tree (symbolic capital per strategy, symbolic position per security, established through the
real adjust/allocate/transact), then K operations with symbolic arguments; the identities are proved after every one."""
import itertools

from harness import opslib as O

BOUNDS = {
    'quick': 'shapes S1 (flat a,b), S1L (lazy children), S3 (root->[sub(a,b),c]); 3 dates on a dyadic price grid, multipliers {1,10,0.5}, '
             'bid/offer on; arbitrary prior portfolio + every sequence of K=2 operations from the alphabet {adjust, adjust(non-flow), '
             'allocate-to-child, transact, rebalance(0.5), close, flatten, next-date, redundant update, allocate-to-substrategy, '
             'sub-strategy allocate}; fractional and whole-unit positions; commission = uninterpreted F(q,p) when no sizing loop is on the '
             'sequence, 0.2%-of-notional otherwise; capital [0,1e7], amounts [-1e6,1e6], quantities [-1e4,1e4]',
    'thorough': 'adds S4 (shared ticker in two sub-strategies), K=3 on S1, per-share and min-fee commission families',
}
ASSUMPTIONS = ['the clock is advanced only from a synced tree (as Backtest.run does)',
               'operations whose bt call raises end the path (exceptions are judged by C05/C10)',
               'prices/multipliers/spreads on dyadic grids; capital, amounts, quantities, prior positions symbolic']

SIZING = {'alloc', 'rebal'}


def alphabet(shape):
    if shape in ('S1', 'S1L'):
        return [['adjust'], ['adjust_nf'], ['alloc', 'a'], ['transact', 'b'], ['rebal', 'a', 0.5], ['close', 'b'], ['flatten'], ['next'], ['update']]
    if shape == 'S3':
        return [['adjust'], ['alloc', 'sub'], ['alloc', 'c'], ['alloc', 'a', 'sub'], ['transact', 'b', 'sub'], ['rebal', 'sub', 0.25], ['close', 'sub'],
                ['flatten'], ['next'], ['transact', 'c'], ['flatten', 'sub']]
    if shape == 'S4':
        return [['adjust'], ['alloc', 'sub1'], ['transact', 'a', 'sub2'], ['rebal', 'sub2', 0.5], ['close', 'sub1'], ['flatten'], ['next'], ['alloc', 'a', 'sub1']]
    raise ValueError(shape)


def h_ops(run, cfg):
    w = O.build(run, cfg)
    O.fund(run, w, prior=True)
    O.check_balance_sheet(run, w, '@pre')
    def after(k, op, info):
        for n, v in getattr(w, 'leaf_first', []):
            run.check_near(v, n.value, O.EPS_MONEY if hasattr(O, 'EPS_MONEY') else 1e-6, 'value-same-whichever-node-is-read-first', n.full_name)
        O.check_balance_sheet(run, w)
        if cfg.get('twice'):
            # a second look, now that every node has been read once: the picture must not depend on which node was looked at first
            O.check_balance_sheet(run, w, '@second-look')
    O.do_ops(run, w, cfg['ops'], after=after)


HARNESSES = {'ops': h_ops}
WITNESS_CAP = {'quick': 120, 'thorough': 400}
COMPILED_REPLAY = {'quick': False, 'thorough': True}


WMULT = {('alloc', 'mid'), ('alloc', 'leaf'), ('rebal', 'mid'), ('rebal', 'leaf'), ('alloc', 'sub'), ('rebal', 'sub'), ('alloc', 'sub1'), ('rebal', 'sub2'), ('alloc', 'sub2'), ('rebal', 'sub1')}


def _cfgs(shape, seq, integer, tier):
    """cost model and capital mode per sequence (keeps every query in the linear fragment)"""
    nsz = sum(1 for op in seq if op[0] in SIZING)
    nwm = sum(1 for op in seq if tuple(op[:2]) in WMULT)
    if nwm > 1 or (nwm and integer):
        return []
    if nwm:
        # the sub-strategy's child weights must still be concrete when capital is pushed through them (amount * weight stays linear)
        k = [i for i, op in enumerate(seq) if tuple(op[:2]) in WMULT][0]
        if any(op[0] not in ('adjust', 'adjust_nf', 'update', 'next') for op in seq[:k]):
            return []          # two weight-multiplying operations compose to degree > 3; whole-unit sizing below a sub-allocation stalls z3
    if nsz > 1 and (integer or tier == 'quick'):
        return []          # two sizing searches in one sequence multiply the path count (thorough, fractional only)
    fees = [['prop', 0.001953125]] if nsz else [['uf']]
    if tier == 'thorough' and nsz:
        fees = [['prop', 0.001953125], ['pershare', 0.0625]]
    out = []
    for fee in fees:
        cfg = dict(shape=shape, int=integer, fee=fee, spread=1, ops=[list(o) for o in seq], mult=1)
        if nwm:
            cfg['capgrid'] = 1
        out.append(cfg)
    return out


def plan(tier):
    tasks = []
    quick = tier == 'quick'
    opts = dict(max_paths=3000, timeout_ms=5000 if quick else 20000)
    for shape in (['S1', 'S1L', 'S3'] if quick else ['S1', 'S1L', 'S3', 'S4']):
        al = alphabet(shape)
        seqs = list(itertools.product(al, repeat=2))
        for integer in (0, 1):
            sel = seqs
            if quick:
                if shape == 'S1':
                    sel = seqs if not integer else seqs[1::2]
                elif shape == 'S1L':
                    sel = [s for s in seqs if s[0][0] in ('alloc', 'transact', 'rebal', 'next')][integer::4]
                elif shape == 'S3':
                    sel = seqs[integer::3] if not integer else seqs[1::6]
            for seq in sel:
                for cfg in _cfgs(shape, seq, integer, tier):
                    tasks.append(dict(harness='ops', cfg=cfg, opts=opts))
    # zero-price episode: a held position priced at exactly 0 on two consecutive dates, then recovering (4 dates, trailing date changes)
    zp = [(['transact', 'b'], ['next']), (['next'], ['transact', 'b']), (['next'], ['adjust']), (['alloc', 'a'], ['next']), (['next'], ['close', 'b']),
          (['next'], ['next'])]
    for seq in zp:
        for integer in (0, 1):
            for cfg in _cfgs('S1', seq, integer, tier)[:1]:
                cfg.update(pgrid='zero', ndates=4, tail_next=2)
                tasks.append(dict(harness='ops', cfg=cfg, opts=opts))
    for seq in ((['transact', 'c'], ['next']), (['next'], ['transact', 'b', 'sub'])):
        for cfg in _cfgs('S3', seq, 0, tier)[:1]:
            cfg.update(pgrid='zero', ndates=4, tail_next=2)
            tasks.append(dict(harness='ops', cfg=cfg, opts=opts))
    # three levels (root -> mid -> leaf -> a, built bottom-up): trades at the deepest node, observed straight away and after a date change
    for seq in ((['transact', 'a', 'mid/leaf'], ['read']), (['transact', 'a', 'mid/leaf'], ['next']), (['next'], ['transact', 'a', 'mid/leaf']),
                (['transact', 'a', 'mid/leaf'], ['adjust']), (['alloc', 'a', 'mid/leaf'], ['read']), (['transact', 'a', 'mid/leaf'], ['transact', 'c']),
                (['transact_px', 'a', 99.0, 'mid/leaf'], ['read']), (['next'], ['transact_px', 'a', 101.25, 'mid/leaf'])):
        for cfg in _cfgs('S5', seq, 0, tier)[:1]:
            cfg.update(twice=1, leaf_first=1)
            tasks.append(dict(harness='ops', cfg=cfg, opts=opts))
    # cash-only sub-strategy, no costs: capital moved between nodes changes cash rows but no value (second operation on a date)
    for seq in ((['adjust'], ['alloc', 'sub']), (['alloc', 'sub'], ['alloc', 'sub']), (['alloc', 'sub'], ['next']), (['adjust'], ['alloc', 'a', 'sub']),
                (['alloc', 'sub'], ['close', 'sub']), (['next'], ['alloc', 'sub'])):
        cfg = dict(shape='S3', int=0, fee=['none', None], spread=0, ops=[list(o) for o in seq], mult=1, subcash=1)
        tasks.append(dict(harness='ops', cfg=cfg, opts=opts))
    # trades at a custom price (bid/offer data on), incl. a custom price of exactly 0 (zero cash leg) with no commission
    for seq in ((['transact_px', 'b', 0.0], ['read']), (['transact_px', 'a', 101.25], ['transact_px', 'b', 0.0]), (['next'], ['transact_px', 'b', 0.0]),
                (['transact_px', 'b', 36.0], ['next'])):
        for fee in (['none', None], ['uf']):
            cfg = dict(shape='S1', int=0, fee=fee, spread=1, ops=[list(o) for o in seq], mult=1)
            tasks.append(dict(harness='ops', cfg=cfg, opts=opts))
    # insolvent / degenerate pre-states (capital from 0): bankruptcy liquidation and zero-value branches
    ins = [(['transact', 'b'], ['next']), (['next'], ['transact', 'b']), (['adjust'], ['flatten']), (['transact', 'b'], ['close', 'b']),
           (['adjust_nf'], ['next']), (['next'], ['next'])]
    if not quick:
        ins = [s for s in itertools.product(alphabet('S1'), repeat=2) if not any(op[0] in SIZING for op in s)]
    for seq in ins:
        for integer in ((0,) if quick else (0, 1)):
            cfg = dict(shape='S1', int=integer, fee=['uf'], spread=1, ops=[list(o) for o in seq], mult=1, solvent=0)
            tasks.append(dict(harness='ops', cfg=cfg, opts=opts))
    if not quick:
        al = alphabet('S1')
        for seq in itertools.product(al, repeat=3):
            if sum(1 for op in seq if op[0] in SIZING) > 1:
                continue
            for cfg in _cfgs('S1', seq, 0, tier)[:1]:
                tasks.append(dict(harness='ops', cfg=cfg, opts=dict(max_paths=8000, timeout_ms=20000)))
    return tasks
