"""C17 - fixed-income strategies account by notional, coupons and carry.

A FixedIncomeStrategy root holding a coupon-paying security (a), a par-notional security (b), a hedge security (c) and a plain security (d)
is driven through 4 dates by real transact / Rebalance / SetNotional calls.  Configuration P: quantities symbolic, coupons / holding costs /
prices on grids.  Configuration T (transposed): quantities on a grid, coupons, costs and later prices symbolic.  Both are linear."""
import pandas as pd

from harness.common import EPS_MONEY, EPS_W, bt, dates, frame

BOUNDS = {
    'quick': '4 dates; per date one symbolic trade per security (may flip, close one or close all positions by solver choice); coupon schedule irregular incl. '
             'zero, long/short holding costs asymmetric, either one or both cost tables supplied; bid/offer on/off, 0.2% commission on/off; Rebalance with '
             'SetNotional on long and short targets; RenormalizedFixedIncomeResult._price against its formula',
    'thorough': 'adds 5 dates and the transposed configuration with symbolic prices on all later dates',
}
ASSUMPTIONS = ['index compared with 1e-7 slack on a scale of 100']
EPS_P = 1e-7

COLS = ['a', 'b', 'c', 'd']
PR = {'a': [99.0, 99.5, 98.25, 100.5, 101.0], 'b': [101.5, 101.0, 102.0, 100.75, 100.0], 'c': [50.0, 51.0, 49.5, 50.5, 52.0], 'd': [20.0, 21.0, 19.5, 20.5, 22.0]}
CPN = [0.5, 0.0, 0.25, 0.75, 0.125]
CL = [0.125, 0.0625, 0.0, 0.25, 0.125]
CS = [0.0625, 0.25, 0.125, 0.0, 0.5]
SPREAD = {'a': 0.5, 'b': 0.25, 'c': 0.125, 'd': 0.25}


def build(run, cfg):
    B = bt()
    C = B.core
    nd = cfg.get('nd', 4)
    dts = dates(nd)
    T = cfg.get('transposed', 0)

    def px(i, c):
        if T and i >= 1:
            return run.real('p_%d_%s' % (i, c), 10, 200)
        return PR[c][i]
    data = frame(run, dts, COLS, px)
    w = {}
    w['cpn'] = [run.real('cpn%d' % i, -2, 2) if T else CPN[i] for i in range(nd)]
    w['cl'] = [run.real('cl%d' % i, 0, 1) if T else CL[i] for i in range(nd)]
    w['cs'] = [run.real('cs%d' % i, 0, 1) if T else CS[i] for i in range(nd)]
    kw = dict(coupons=frame(run, dts, ['a'], lambda i, c: w['cpn'][i]))
    costs = cfg.get('costs', 'both')
    if costs in ('both', 'long'):
        kw['cost_long'] = frame(run, dts, ['a'], lambda i, c: w['cl'][i])
    if costs in ('both', 'short'):
        kw['cost_short'] = frame(run, dts, ['a'], lambda i, c: w['cs'][i])
    if cfg.get('spread'):
        kw['bidoffer'] = frame(run, dts, COLS, lambda i, c: SPREAD[c])
    algos = []
    s = C.FixedIncomeStrategy('fi', algos, [C.CouponPayingSecurity('a'), C.FixedIncomeSecurity('b'), C.HedgeSecurity('c'), C.Security('d')])
    s.use_integer_positions(False)
    w['feeb'] = 0.001953125 if cfg.get('fee') else 0.0
    if cfg.get('fee'):
        s.set_commissions(lambda q, p: w['feeb'] * abs(q) * p)
    s.setup(data, **kw)
    s.update(dts[0])
    w.update(B=B, s=s, dts=dts, data=data, costs=costs, nd=nd, T=T)
    return w


def expected_notional(B, n):
    C = B.core
    if isinstance(n, (C.HedgeSecurity, C.CouponPayingHedgeSecurity)):
        return 0.0
    if isinstance(n, C.FixedIncomeSecurity):
        return n.position
    return n.value


def check_state(run, w, di, tag):
    """notional per node type, weights as notional fractions, coupon / holding cost rows of this date"""
    B, s, dts = w['B'], w['s'], w['dts']
    d = dts[di]
    s.value
    tot = 0.0
    for c in s.children.values():
        exp = expected_notional(B, c)
        run.check_near(c.notional_value, exp, EPS_MONEY, 'notional-per-security-type' + tag, c.name)
        run.check_near(c.notional_values[d], exp, EPS_MONEY, 'notional-row' + tag, c.name)
        tot = tot + abs(exp)
    run.check_near(s.notional_value, tot, EPS_MONEY, 'strategy-notional=sum-abs-children' + tag)
    if bool(tot >= 1e-3):
        for c in s.children.values():
            run.check_near(c.weight * tot, expected_notional(B, c), EPS_MONEY, 'weight=notional-fraction' + tag, c.name)
    a = s['a']
    pos = a.position
    run.check_near(a.coupons[d], pos * w['cpn'][di], EPS_MONEY, 'coupon=position*coupon' + tag)
    hc = 0.0
    if bool(pos > 0) and w['costs'] in ('both', 'long'):
        hc = pos * w['cl'][di]
    elif bool(pos < 0) and w['costs'] in ('both', 'short'):
        hc = -pos * w['cs'][di]
    run.check_near(a.holding_costs[d], hc, EPS_MONEY, 'holding-cost=abs-position*side-cost' + tag)
    return pos * w['cpn'][di] - hc


def trade_costs(w, name, q, di):
    """commission + half-spread the harness expects for a trade of q of `name` on date di"""
    px = w['data'][name][w['dts'][di]]
    fee = w['feeb'] * abs(q) * px
    bo = abs(q) * 0.5 * SPREAD[name] if 'bidoffer' in w['s']._setup_kwargs else 0.0
    return fee + bo


def h_history(run, cfg):
    w = build(run, cfg)
    B, s, dts, nd = w['B'], w['s'], w['dts'], w['nd']
    T = w['T']
    GRIDQ = {'a': [100.0, -250.0, 50.0, -20.0, 10.0], 'b': [40.0, 10.0, -80.0, 5.0, -5.0], 'c': [-30.0, 0.0, 10.0, 0.0, 5.0], 'd': [5.0, -5.0, 0.0, 12.0, -3.0]}
    prev_price, prev_val, prev_notl, carry = 100.0, 0.0, 0.0, 0.0
    for di in range(nd):
        d = dts[di]
        if di > 0:
            cash_before = s.capital
            try:
                s.update(d)
            except ZeroDivisionError:
                run.end('zero-notional-with-pnl')
            # carry accrued on the previous date is paid into the parent's cash now, exactly once
            run.check_near(s.capital, cash_before + carry, EPS_MONEY, 'carry-paid-next-date', 'date %d' % di)
            s.update(d)
            run.check_near(s.capital, cash_before + carry, EPS_MONEY, 'carry-paid-once', 'date %d' % di)
        costs = 0.0
        mode = cfg.get('mode', 'free')
        for name in COLS:
            if mode == 'closeall' and di == 1:
                q = -s[name].position
            elif T or name in ('c', 'd') or (name == 'b' and di > 0) or (name == 'a' and di > 1):
                q = GRIDQ[name][di]            # keeps the path count down: a trades a symbolic quantity every date, b on the first date
            else:
                q = run.real('q_%d_%s' % (di, name), -500, 500)
            if bool(abs(q) >= 1e-16):
                costs = costs + trade_costs(w, name, q, di)
            try:
                s.transact(q, name)
            except Exception as e:
                run.end('raised')
        try:
            s.update(d)
        except ZeroDivisionError:
            run.end('zero-notional-with-pnl')
        carry = check_state(run, w, di, '')
        # additive index: price_t = price_{t-1} + 100 * (change in value net of flows) / notional (last notional, else current)
        pnl = s.value - prev_val
        den = prev_notl if bool(abs(prev_notl) >= 1e-12) else s.notional_value
        if bool(abs(den) >= 1e-12):
            run.check_near((s.price - prev_price) * den, 100.0 * pnl, EPS_P * 1000, 'additive-index', 'date %d' % di)
        else:
            run.check_near(s.price, prev_price, EPS_P, 'additive-index-flat-when-no-notional', 'date %d' % di)
        run.check_near(s.prices[d], s.price, EPS_P, 'price-row')
        prev_price, prev_val, prev_notl = s.price, s.value, s.notional_value


def h_rebalance(run, cfg):
    """Rebalance with SetNotional: targets are fractions of the set notional"""
    w = build(run, cfg)
    B, s, dts = w['B'], w['s'], w['dts']
    A = B.algos
    s.transact(run.real('qa', -300, 300), 'a')
    s.transact(run.real('qb', -300, 300), 'b')
    s.transact(run.real('qd', -30, 30), 'd')
    s.update(dts[0])
    s.update(dts[1])
    N = cfg['notional']
    targets = {k: v for k, v in cfg['targets']}
    s._setup_kwargs['notl'] = pd.Series([N] * len(dts), index=dts)
    s.temp = {'weights': dict(targets)}
    ok = A.SetNotional('notl')(s)
    run.check(ok is True and s.temp.get('notional_value') == N, 'setnotional')
    try:
        A.Rebalance()(s)
    except Exception as e:
        run.end('raised')
    for name in COLS:
        c = s[name]
        if name in targets:
            run.check_near(expected_notional(B, c) if name != 'c' else c.value, targets[name] * N, EPS_MONEY * 10, 'rebalance-target-is-fraction-of-set-notional', name)
        else:
            if name == 'c':
                continue            # hedges are outside the weights workflow
            run.check_near(c.position, 0.0, 1e-9, 'untargeted-closed', name)


def h_rebalance_direct(run, cfg):
    """two operations on one date with no read in between: a trade, then rebalance(w, child, base=N): the child ends at w*N of notional"""
    w = build(run, cfg)
    B, s, dts = w['B'], w['s'], w['dts']
    s.transact(run.real('qa', -300, 300), 'a')
    s.transact(run.real('qb', -300, 300), 'b')
    s.update(dts[0])
    s.update(dts[1])
    N = cfg['notional']
    child = cfg['child']
    other = 'b' if child == 'a' else 'a'
    wt = cfg['weight']
    try:
        s.transact(run.real('q2', -200, 200), other)      # marks the tree stale; no property is read before the rebalance
        s.transact(run.real('q3', -200, 200), child)
        s.rebalance(wt, child, base=N)
        s.update(dts[1])
    except Exception as e:
        run.end('raised')
    run.check_near(s[child].position, wt * N, EPS_MONEY * 10, 'rebalance-after-same-date-trade-hits-target', '%s target %r' % (child, wt * N))


def h_renorm(run, cfg):
    w = build(run, cfg)
    B, s, dts, nd = w['B'], w['s'], w['dts'], w['nd']
    for di in range(nd):
        s.update(dts[di])
        s.transact(run.real('q%d' % di, -200, 200) if di < 1 else 25.0 * di, 'a')
        s.transact(run.real('r%d' % di, 1, 200) if di == 1 else -3.0 * di, 'd')
        if di == 1:
            s.adjust(run.real('flow', -1000, 1000))
        s.update(dts[di])
    cls = B.backtest.RenormalizedFixedIncomeResult
    obj = cls.__new__(cls)
    v = cfg['norm']
    try:
        P = obj._price(s, v)
    except Exception as e:
        run.fail('renormalized-price-computes', repr(e))
    V, F = s.values, s.flows
    acc = 0.0
    run.check_near(P.iloc[0], 100.0, EPS_P, 'renormalized-price-starts-at-par')
    for di in range(1, nd):
        acc = acc + (V.iloc[di] - V.iloc[di - 1] - F.iloc[di]) / v
        run.check_near(P.iloc[di], 100.0 * (1.0 + acc), EPS_P * 100, 'renormalized-price-formula', 'date %d' % di)


def h_nested_fi(run, cfg):
    """fixed-income root over two fixed-income sub-strategies, one of them long one security and short another: rebalancing the root to fractions of
    a set notional scales each sub-strategy's book pro rata (longs longer, shorts shorter); next date's coupons and index follow the scaled book"""
    B = bt()
    C = B.core
    dts = dates(3)
    P = {'c1': [1.0, 1.0625, 1.0], 'c2': [1.0, 0.96875, 1.03125], 'c3': [1.0, 1.03125, 1.015625]}
    CP = {'c1': [0.125, 0.0625, 0.0], 'c2': [0.0625, 0.1875, 0.0], 'c3': [0.25, 0.0, 0.0]}
    data = frame(run, dts, ['c1', 'c2', 'c3'], lambda i, c: P[c][i])
    cpn = frame(run, dts, ['c1', 'c2', 'c3'], lambda i, c: CP[c][i])
    s1 = C.FixedIncomeStrategy('s1', children=[C.CouponPayingSecurity('c1'), C.CouponPayingSecurity('c2')])
    s2 = C.FixedIncomeStrategy('s2', children=[C.CouponPayingSecurity('c3')])
    s = C.FixedIncomeStrategy('s', children=[s1, s2])
    s.use_integer_positions(False)
    s.setup(data, coupons=cpn)
    s1, s2 = s['s1'], s['s2']
    s.update(dts[0])
    sg = cfg['signs']
    q = {}
    for n, par, sign in (('c1', s1, sg[0]), ('c2', s1, sg[1]), ('c3', s2, sg[2])):
        q[n] = (run.real('q_' + n, 10, 500) if n == cfg.get('sym', 'c1') else {'c1': 100.0, 'c2': 300.0, 'c3': 100.0}[n]) * sign
        par.transact(q[n], n)
    s.update(dts[0])
    n1 = q['c1'] * sg[0] + q['c2'] * sg[1]
    n2 = q['c3'] * sg[2]
    run.check_near(s1.notional_value, n1, EPS_MONEY, 'strategy-notional=sum-abs-children', 's1')
    run.check_near(s.notional_value, n1 + n2, EPS_MONEY, 'strategy-notional=sum-abs-children', 'root')
    N = cfg['notional']
    w1, w2 = cfg['w']
    s.temp = {'notional_value': N, 'weights': {'s1': w1, 's2': w2}}
    B.algos.Rebalance()(s)
    want = {'c1': (w1 * N, n1), 'c2': (w1 * N, n1), 'c3': (w2 * N, n2)}
    sec = {'c1': s1['c1'], 'c2': s1['c2'], 'c3': s2['c3']}
    for n in ('c1', 'c2', 'c3'):
        tgt, old = want[n]
        run.check_near(sec[n].position * old, q[n] * abs(tgt), 1e-4, 'substrategy-book-scaled-pro-rata', '%s (signs %s)' % (n, sg))
    run.check_near(s1.notional_value, abs(w1) * N, EPS_MONEY, 'substrategy-notional=target', 's1')
    run.check_near(s2.notional_value, abs(w2) * N, EPS_MONEY, 'substrategy-notional=target', 's2')
    run.check_near(s.notional_value, (abs(w1) + abs(w2)) * N, EPS_MONEY, 'strategy-notional=sum-abs-children', 'root after rebalance')
    # weights are fractions of the parent's actual notional (targets are fractions of the SET notional; they coincide when |w| sums to one)
    tot = abs(w1) + abs(w2)
    run.check_near(s1.weight * tot, w1, 1e-9, 'weight=notional-fraction', 's1')
    run.check_near(s2.weight * tot, w2, 1e-9, 'weight=notional-fraction', 's2')
    run.check_near(s.value, 0.0, EPS_MONEY, 'rebalance-at-par-free', 'root value')
    pos = {n: sec[n].position for n in sec}
    s.update(dts[1])
    carry = pos['c1'] * CP['c1'][0] + pos['c2'] * CP['c2'][0] + pos['c3'] * CP['c3'][0]
    mtm = sum(pos[n] * (P[n][1] - P[n][0]) for n in pos)
    run.check_near(s.value, carry + mtm, EPS_MONEY, 'value=carry+mark-to-market', 'date 1')
    run.check_near((s.price - 100.0) * s.notional_value, 100.0 * (carry + mtm), 1e-4, 'index-additive-on-notional', 'date 1')


HARNESSES = {'nested_fi': h_nested_fi, 'history': h_history, 'rebalance': h_rebalance, 'renorm': h_renorm, 'rebalance_direct': h_rebalance_direct}
WITNESS_CAP = {'quick': 120, 'thorough': 300}


def plan(tier):
    quick = tier == 'quick'
    opts = dict(max_paths=6000, timeout_ms=5000 if quick else 20000)
    tasks = []
    for costs in ('both', 'long', 'short', 'none'):
        for spread, fee in ((0, 0), (1, 1)):
            if quick and costs in ('none',) and spread:
                continue
            tasks.append(dict(harness='history', cfg=dict(costs=costs, spread=spread, fee=fee, nd=3 if quick else 4, transposed=0, deg_limit=4), opts=opts))
    tasks.append(dict(harness='history', cfg=dict(costs='both', spread=1, fee=1, nd=4, transposed=0, mode='closeall', deg_limit=4), opts=opts))
    tasks.append(dict(harness='history', cfg=dict(costs='both', spread=0, fee=0, nd=4, transposed=0, mode='closeall', deg_limit=4), opts=opts))
    for costs in ('both', 'long', 'short'):
        tasks.append(dict(harness='history', cfg=dict(costs=costs, spread=1, fee=1, nd=4 if quick else 5, transposed=1, deg_limit=4), opts=opts))
    for tg in ([['a', 0.5], ['b', 0.5]], [['a', -0.25], ['b', 0.75], ['d', 0.25]], [['b', 1.0]], [['a', 0.5], ['d', -0.125]]):
        for N in (1000.0, 250.0, 0.0):
            tasks.append(dict(harness='rebalance', cfg=dict(costs='both', spread=0, fee=0, nd=3, targets=tg, notional=N), opts=opts))
    for child in ('a', 'b'):
        for wt in (0.5, -0.25):
            tasks.append(dict(harness='rebalance_direct', cfg=dict(costs='both', spread=0, fee=0, nd=3, child=child, weight=wt, notional=800.0), opts=opts))
    for signs in ([1, -1, 1], [1, 1, 1], [-1, -1, 1], [-1, 1, -1]):
        for wv in ([0.625, 0.375], [0.25, 0.5]):
            for sym in ('c1', 'c2', 'c3'):
                tasks.append(dict(harness='nested_fi', cfg=dict(signs=signs, w=wv, notional=1000.0, sym=sym, deg_limit=4), opts=opts))
    for v in (1000.0, 62.5):
        tasks.append(dict(harness='renorm', cfg=dict(costs='both', spread=1, fee=0, nd=4, norm=v), opts=opts))
    return tasks
