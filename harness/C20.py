"""C20 - risk sums over the tree, hedges neutralise it, matured positions close and roll.

UpdateRisk / HedgeRisks run on real trees with symbolic positions and grid unit-risk tables and multipliers (the inverse / pseudo-inverse is
computed by real numpy on the concrete table, so everything stays linear in the positions).  ClosePositionsAfterDates / RollPositionsAfterDates
/ SelectActive run through the real Backtest.run with the close / roll / start dates chosen by the solver among the index dates."""
import numpy as np
import pandas as pd

from harness.common import EPS_MONEY, bt, dates, frame

BOUNDS = {
    'quick': 'risk: nested tree root->[sub(a x1, b x10), c x0.5], two measures (one without an entry for c), history depth 0..2, symbolic positions, 2 dates; '
             'hedge: one risk source + 2 hedge instruments with multipliers {1,10}, exact inverse and pseudo-inverse (1 instrument / 2 measures), optional '
             'separate hedge strategy re-hedged on a second date; close/roll: 2 securities x 5 dates, close date, roll date and trading start chosen by the solver; '
             'roll_many: three securities with symbolic positions rolling into one target (and a chain d->a->c) on 9 date triples; unit-risk tables with different date indices',
    'thorough': 'roll_many on all 64 date triples x {common target, chain}; hedge multipliers {0.5,2,100,10,0.25} x separate/misaligned',
}
ASSUMPTIONS = ['unit-risk tables and multipliers concrete (grid); positions symbolic']
PR = {'a': [100.0, 105.0, 95.0, 101.5, 98.0], 'b': [37.5, 33.0, 41.25, 40.0, 42.5], 'c': [10.0, 11.0, 12.5, 9.75, 10.5]}
EPS_R = 1e-6


def h_risk(run, cfg):
    B = bt()
    A = B.algos
    C = B.core
    dts = dates(2)
    data = frame(run, dts, ['a', 'b', 'c'], lambda i, c: PR[c][i])
    sub = B.Strategy('sub', [], [C.Security('a', multiplier=1.0), C.Security('b', multiplier=10.0)])
    root = B.Strategy('root', [], [sub, C.Security('c', multiplier=0.5)])
    U = {'r1': pd.DataFrame({'a': [1.0, 1.5], 'b': [2.0, 2.25], 'c': [-3.0, -2.5]}, index=dts),
         'r2': pd.DataFrame({'a': [0.5, 0.25], 'b': [-1.0, -1.5]}, index=dts)}
    root.use_integer_positions(False)
    root.setup(data, unit_risk=U)
    root.update(dts[0])
    root.adjust(10 ** 7)
    root.allocate(10 ** 6, 'sub')
    pos = {'a': run.real('pa', -1000, 1000), 'b': run.real('pb', -100, 100), 'c': run.real('pc', -1000, 1000)}
    root['sub'].transact(pos['a'], 'a')
    root['sub'].transact(pos['b'], 'b')
    root.transact(pos['c'], 'c')
    root.update(dts[0])
    h = cfg['history']
    algs = {m: A.UpdateRisk(m, history=h) for m in ('r1', 'r2')}
    mult = {'a': 1.0, 'b': 10.0, 'c': 0.5}
    for di in (0, 1):
        root.update(dts[di])
        for m in ('r1', 'r2'):
            algs[m](root)
        for m in ('r1', 'r2'):
            exp = {}
            for n in ('a', 'b', 'c'):
                u = U[m][n][dts[di]] if n in U[m].columns else 0.0
                exp[n] = u * pos[n] * mult[n]
            sa, sb = root['sub']['a'], root['sub']['b']
            run.check_near(sa.risk[m], exp['a'], EPS_R, 'security-risk=unit*position*multiplier', 'a %s date %d' % (m, di))
            run.check_near(sb.risk[m], exp['b'], EPS_R, 'security-risk=unit*position*multiplier', 'b %s date %d' % (m, di))
            run.check_near(root['c'].risk[m], exp['c'], EPS_R, 'security-risk=unit*position*multiplier', 'c %s date %d' % (m, di))
            run.check_near(root['sub'].risk[m], exp['a'] + exp['b'], EPS_R, 'strategy-risk=sum-of-children', 'sub %s date %d' % (m, di))
            run.check_near(root.risk[m], exp['a'] + exp['b'] + exp['c'], EPS_R, 'strategy-risk=sum-of-children', 'root %s date %d' % (m, di))
            # history kept to the requested depth
            for depth, n in ((0, root), (1, root['sub']), (1, root['c']), (2, sa)):
                has = hasattr(n, 'risks') and m in getattr(n, 'risks').columns
                run.check(has == (depth < h), 'risk-history-depth', '%s depth %d history %d' % (n.full_name, depth, h))
                if has:
                    run.check_near(n.risks[m][dts[di]], n.risk[m], EPS_R, 'risk-history-row', n.full_name)


def h_hedge(run, cfg):
    B = bt()
    A = B.algos
    C = B.core
    dts = dates(2)
    cols = ['x', 'h1', 'h2']
    P = {'x': [100.0, 101.0], 'h1': [50.0, 49.0], 'h2': [20.0, 21.0]}
    data = frame(run, dts, cols, lambda i, c: P[c][i])
    m1, m2 = cfg['mults']
    U = {'r1': pd.DataFrame({'x': [3.0, 2.5], 'h1': [1.0, 1.25], 'h2': [0.5, 0.25]}, index=dts),
         'r2': pd.DataFrame({'x': [-1.0, -1.5], 'h1': [0.25, 0.5], 'h2': [2.0, 1.75]}, index=dts)}
    if cfg.get('misaligned'):
        # the tables of different measures need not share an index: r2 carries an extra earlier row
        early = dts[0] - pd.Timedelta(days=3)
        U['r2'] = pd.DataFrame({'x': [4.0, -1.0, -1.5], 'h1': [-2.0, 0.25, 0.5], 'h2': [0.125, 2.0, 1.75]}, index=[early, dts[0], dts[1]])
    sep = bool(cfg.get('separate'))
    pseudo = bool(cfg.get('pseudo'))
    hedges = ['h1', 'h2'] if not pseudo else ['h1']
    mult = {'x': 1.0, 'h1': m1, 'h2': m2}
    if sep:
        book = B.Strategy('book', [], [C.Security('x')])
        hedge = B.Strategy('hedge', [], [C.HedgeSecurity('h1', multiplier=m1), C.HedgeSecurity('h2', multiplier=m2)])
        root = B.Strategy('root', [], [book, hedge])
    else:
        root = B.Strategy('root', [], [C.Security('x'), C.Security('h1', multiplier=m1), C.Security('h2', multiplier=m2)])
    root.use_integer_positions(False)
    root.setup(data, unit_risk=U)
    root.update(dts[0])
    root.adjust(10 ** 7)
    px = run.real('px', -1000, 1000)
    if sep:
        root.allocate(10 ** 6, 'book')
        root.allocate(10 ** 6, 'hedge')
        root['book'].transact(px, 'x')
        tgt = root['hedge']
        alg = A.HedgeRisks(['r1', 'r2'], pseudo=pseudo, strategy=root['book'])
    else:
        root.transact(px, 'x')
        tgt = root
        alg = A.HedgeRisks(['r1', 'r2'], pseudo=pseudo)
    root.update(dts[0])
    ur = {m: A.UpdateRisk(m) for m in ('r1', 'r2')}
    for di in (0, 1):
        root.update(dts[di])
        if di == 1:
            # the book moves between hedges
            (root['book'] if sep else root).transact(run.real('dx', -100, 100), 'x')
            root.update(dts[di])
        for m in ur:
            ur[m](root)
        tgt.temp = {'selected': list(hedges)}
        try:
            alg(tgt)
        except Exception as e:
            run.fail('hedge-completes', repr(e))
        root.update(dts[di])
        for m in ur:
            ur[m](root)
        if not pseudo:
            for m in ('r1', 'r2'):
                run.check_near(root.risk[m], 0.0, EPS_R, 'hedged-risk-is-zero', '%s date %d (multipliers %s)' % (m, di, cfg['mults']))
        else:
            # least squares with one instrument: the residual is orthogonal to the instrument's risk vector
            j = [U[m]['h1'][dts[di]] * mult['h1'] for m in ('r1', 'r2')]
            dot = root.risk['r1'] * j[0] + root.risk['r2'] * j[1]
            run.check_near(dot, 0.0, EPS_R * 10, 'pseudo-hedge-is-least-squares', 'date %d' % di)


def h_close_roll(run, cfg):
    B = bt()
    A = B.algos
    C = B.core
    dts = dates(5)
    cols = ['a', 'b', 'c']
    data = frame(run, dts, cols, lambda i, c: PR[c][i])
    kc = run.choose('close_a', 5)           # close date of a = dts[kc]
    kr = run.choose('roll_b', 5)            # roll date of b = dts[kr]
    ks = run.choose('start', 4)             # trading starts strictly after dts[ks-1] (ks = 0: from the first date)
    cd = pd.DataFrame({'date': [dts[kc]]}, index=['a'])
    roll = pd.DataFrame({'date': [dts[kr]], 'target': ['c'], 'factor': [2.0]}, index=['b'])
    log = []

    class Snap(B.Algo):
        def __init__(self, tag):
            super().__init__()
            self.tag = tag

        def __call__(self, target):
            if target is live.get('s'):
                log.append((self.tag, target.now, {n: target[n].position for n in ('a', 'b', 'c')}))
            return True
    live = {}
    algos = [A.ClosePositionsAfterDates('cd'), Snap('pre'), A.RollPositionsAfterDates('roll'), Snap('post')]
    if ks > 0:
        algos.append(A.RunAfterDate(dts[ks - 1]))
    algos += [A.SelectThese(['a', 'b']), A.SelectActive(), A.WeighEqually(), A.Rebalance()]
    s = B.Strategy('s', algos, [C.Security('a'), C.Security('b'), C.Security('c')])
    t = B.Backtest(s, data, initial_capital=100000.0, integer_positions=False, additional_data={'cd': cd, 'roll': roll})
    live['s'] = t.strategy
    try:
        t.run()
    except Exception as e:
        run.fail('close-roll-run-completes', repr(e))
    st = t.strategy
    pa, pb = st['a'].positions, st['b'].positions
    for i, d in enumerate(dts):
        if i >= kc:
            run.check_near(pa[d], 0.0, 1e-9, 'no-position-after-close-date', 'a @%s (close date %s, start %d)' % (d, dts[kc], ks))
        if i >= kr:
            run.check_near(pb[d], 0.0, 1e-9, 'no-position-after-roll-date', 'b @%s' % d)
    # rolled once at the stated factor: on the first run at/after the roll date c receives 2 x the position of b, b goes to zero; never again
    pre = {now: p for tag, now, p in log if tag == 'pre'}
    post = {now: p for tag, now, p in log if tag == 'post'}
    for i, d in enumerate(dts):
        if d not in pre:
            continue
        if i == kr:
            run.check_near(post[d]['c'], pre[d]['c'] + 2.0 * pre[d]['b'], 1e-9, 'rolled-at-conversion-factor', str(d))
            run.check_near(post[d]['b'], 0.0, 1e-9, 'rolled-position-closed', str(d))
        else:
            run.check_near(post[d]['c'], pre[d]['c'], 1e-9, 'rolled-only-once', str(d))
            run.check_near(post[d]['b'], pre[d]['b'], 1e-9, 'rolled-only-once', 'b ' + str(d))
    run.check(('a' in st.perm.get('closed', set())), 'closed-security-recorded')
    run.check(('b' in st.perm.get('rolled', set())), 'rolled-security-recorded')


def h_roll_many(run, cfg):
    """several maturing securities roll on solver-chosen dates (possibly the same one) into one target that already holds a position"""
    B = bt()
    A = B.algos
    C = B.core
    dts = dates(4)
    cols = ['a', 'b', 'c', 'd']
    P = dict(PR, d=[20.0, 21.0, 19.0, 22.0, 20.5])
    data = frame(run, dts, cols, lambda i, c: P[c][i])
    ka, kb, kd = cfg['when']
    fac = {'a': 0.5, 'b': 2.0, 'd': -1.0}
    when = {'a': ka, 'b': kb, 'd': kd}
    roll = pd.DataFrame({'date': [dts[ka], dts[kb], dts[kd]], 'target': ['c', 'c', cfg.get('d_target', 'c')], 'factor': [fac['a'], fac['b'], fac['d']]}, index=['a', 'b', 'd'])
    log = []
    live = {}

    class Snap(B.Algo):
        def __init__(self, tag):
            super().__init__()
            self.tag = tag

        def __call__(self, target):
            if target is live.get('s'):
                log.append((self.tag, target.now, {n: target[n].position for n in cols}))
            return True

    class Seed(B.Algo):
        """opens the book on the first run"""
        def __call__(self, target):
            if 'seeded' not in target.perm:
                target.perm['seeded'] = True
                for n, q in (('a', qa), ('b', qb), ('c', 7.0), ('d', qd)):
                    target.transact(q, n)
            return True
    qa, qb, qd = run.real('qa', -200, 200), run.real('qb', -200, 200), run.real('qd', -200, 200)
    s = B.Strategy('s', [Seed(), Snap('pre'), A.RollPositionsAfterDates('roll'), Snap('post')], [C.Security(n) for n in cols])
    t = B.Backtest(s, data, initial_capital=1000000.0, integer_positions=False, additional_data={'roll': roll})
    live['s'] = t.strategy
    try:
        t.run()
    except Exception as e:
        run.fail('close-roll-run-completes', repr(e))
    pre = {now: p for tag, now, p in log if tag == 'pre'}
    post = {now: p for tag, now, p in log if tag == 'post'}
    done = set()
    for i, d in enumerate(dts):
        if d not in pre:
            continue
        today = [n for n in ('a', 'b', 'd') if when[n] <= i and n not in done]
        done.update(today)
        want = dict(pre[d])
        for n in today:
            tgt = roll['target'][n]
            want[tgt] = want[tgt] + fac[n] * pre[d][n]
        for n in today:
            want[n] = want[n] - pre[d][n]          # the matured position is closed (what was rolled INTO it on this date stays)
        for n in cols:
            run.check_near(post[d][n], want[n], 1e-9, 'rolled-at-conversion-factor', '%s @%s rolling today %s (dates a=%d b=%d d=%d)' % (n, d.date(), today, ka, kb, kd))


HARNESSES = {'risk': h_risk, 'hedge': h_hedge, 'close_roll': h_close_roll, 'roll_many': h_roll_many}
WITNESS_CAP = {'quick': 120, 'thorough': 300}


def plan(tier):
    opts = dict(max_paths=5000, timeout_ms=10000)
    tasks = []
    for h in (0, 1, 2, 3):
        tasks.append(dict(harness='risk', cfg=dict(history=h), opts=opts))
    for mults in ([1.0, 1.0], [10.0, 1.0], [1.0, 0.5]):
        for sep in (0, 1):
            tasks.append(dict(harness='hedge', cfg=dict(mults=mults, separate=sep, pseudo=0), opts=opts))
        tasks.append(dict(harness='hedge', cfg=dict(mults=mults, separate=0, pseudo=1), opts=opts))
    tasks.append(dict(harness='hedge', cfg=dict(mults=[1.0, 1.0], separate=0, pseudo=0, misaligned=1), opts=opts))
    tasks.append(dict(harness='hedge', cfg=dict(mults=[10.0, 1.0], separate=1, pseudo=0, misaligned=1), opts=opts))
    tasks.append(dict(harness='close_roll', cfg={}, opts=opts))
    for when in ([1, 1, 1], [1, 1, 3], [0, 0, 2], [2, 1, 2], [3, 3, 3], [1, 2, 2]):
        tasks.append(dict(harness='roll_many', cfg=dict(when=when), opts=opts))
    if tier != 'quick':
        import itertools
        for when in itertools.product(range(4), repeat=3):
            for tgt in ('c', 'a'):
                tasks.append(dict(harness='roll_many', cfg=dict(when=list(when), d_target=tgt), opts=opts))
        for mults in ([0.5, 2.0], [100.0, 10.0], [2.0, 0.25]):
            for sep in (0, 1):
                for mis in (0, 1):
                    tasks.append(dict(harness='hedge', cfg=dict(mults=mults, separate=sep, pseudo=0, misaligned=mis), opts=opts))
            tasks.append(dict(harness='hedge', cfg=dict(mults=mults, separate=0, pseudo=1), opts=opts))
    for when in ([1, 1, 1], [2, 3, 2], [2, 1, 1]):
        tasks.append(dict(harness='roll_many', cfg=dict(when=when, d_target='a'), opts=opts))      # chain: d rolls into a, a into c
    return tasks
