"""C12 - calendar and counting schedulers fire exactly on their boundaries.

Dates are symbolic (year, month, day, second) with civil-calendar validity 1990..2040; week / quarter / ISO year are z3 terms of the
proleptic Gregorian / ISO-8601 formulas (validated against pandas on every day of the range on every run).  The real
RunPeriod.__call__ and compare_dates run on a symbolic, strictly increasing index; counting schedulers on symbolic call sequences."""
import types

from harness.common import bt

BOUNDS = {
    'quick': 'RunDaily/Weekly/Monthly/Quarterly/Yearly: index of N=4 symbolic strictly increasing timestamps (any spacing, intraday seconds), every '
             'position incl. the pre-start row, all 8 flag combinations, plus an off-index `now`; RunOnce/RunOnDate/RunAfterDate/RunAfterDays/'
             'RunEveryNPeriods: symbolic non-decreasing call sequences of length 5 (repeated dates allowed), n in 1..4, offset < n, days in 0..4',
    'thorough': 'N=5 index; call sequences of length 6',
}
ASSUMPTIONS = ['years 1990..2040; calendar formulas validated against pandas.Timestamp on every day of that range in this run',
               'the first and the last date of the data are governed by their flags alone (fire iff the flag is set), as the statement names them separately']


def period_changed(kind, a, b, run):
    """independent period identity: a, b are timestamps (symbolic or pandas)"""
    if run.mode == 'sym':
        import z3
        from symbt.sym import SymBool
        if kind == 'RunDaily':
            return SymBool(a.N != b.N)
        if kind == 'RunWeekly':
            return SymBool(a.monday() != b.monday())
        if kind == 'RunMonthly':
            return SymBool(a.mi != b.mi)
        if kind == 'RunQuarterly':
            return SymBool(a.qidx() != b.qidx())
        if kind == 'RunYearly':
            return SymBool(a.y != b.y)
    else:
        import datetime
        if kind == 'RunDaily':
            return a.date() != b.date()
        if kind == 'RunWeekly':
            ma = a.date() - datetime.timedelta(days=a.weekday())
            mb = b.date() - datetime.timedelta(days=b.weekday())
            return ma != mb
        if kind == 'RunMonthly':
            return (a.year, a.month) != (b.year, b.month)
        if kind == 'RunQuarterly':
            return (a.year, (a.month - 1) // 3) != (b.year, (b.month - 1) // 3)
        if kind == 'RunYearly':
            return a.year != b.year
    raise ValueError(kind)


YLO, YHI = [1990], [2040]


def mk_index(run, n):
    ds = [run.date('d%d' % i, YLO[0], YHI[0]) for i in range(n)]
    for i in range(n - 1):
        run.date_lt(ds[i], ds[i + 1])
    if run.mode == 'sym':
        from symbt.symdate import SymIndex
        return ds, SymIndex(ds)
    import pandas as pd
    return ds, pd.DatetimeIndex(ds)


def target_of(now, index):
    t = types.SimpleNamespace()
    t.now = now
    t.data = types.SimpleNamespace(index=index)
    return t


def equal_truth(run, got, want, label, detail=''):
    """got is a Python bool returned by bt; want is a bool or symbolic condition"""
    if run.mode == 'sym':
        from symbt.sym import SymBool
        if isinstance(want, SymBool):
            run.check(want if got else ~want, label, detail)
            return
    run.check(bool(got) == bool(want), label, detail)


def h_period(run, cfg):
    B = bt()
    kind = cfg['algo']
    n = cfg['n']
    YLO[0], YHI[0] = cfg.get('ylo', 1990), cfg.get('yhi', 2040)
    ds, idx = mk_index(run, n)
    for first in (False, True):
        for eop in (False, True):
            for last in (False, True):
                for k in range(n):
                    algo = getattr(B.algos, kind)(run_on_first_date=first, run_on_end_of_period=eop, run_on_last_date=last)
                    got = algo(target_of(ds[k], idx))
                    det = 'pos %d first=%s eop=%s last=%s' % (k, first, eop, last)
                    if k == 0:
                        equal_truth(run, got, False, 'never-on-prestart-row', det)
                    elif k == 1:
                        equal_truth(run, got, first, 'first-date-rule', det)
                    elif k == n - 1:
                        equal_truth(run, got, last, 'last-date-rule', det)
                    else:
                        other = ds[k + 1] if eop else ds[k - 1]
                        equal_truth(run, got, period_changed(kind, ds[k], other, run), 'period-boundary', det)
    # a date outside the data, and a missing date
    algo = getattr(B.algos, kind)(run_on_first_date=True, run_on_end_of_period=False, run_on_last_date=True)
    off = run.date('off', YLO[0], YHI[0])
    if run.mode == 'sym':
        for d in ds:
            run.assume(off != d)
    else:
        if any(off == d for d in ds):
            run.end('assumption-false-in-replay')
    equal_truth(run, algo(target_of(off, idx)), False, 'never-outside-data', 'off-index now')
    equal_truth(run, algo(target_of(None, idx)), False, 'never-outside-data', 'now is None')


def h_counting(run, cfg):
    B = bt()
    A = B.algos
    L = cfg['len']
    # non-decreasing call dates with repeats
    ds = [run.dayno('c%d' % i) for i in range(L)]
    distinct = [0]
    for i in range(1, L):
        same = run.boolean('same%d' % i)
        if same:
            if run.mode == 'sym':
                run.assume(ds[i] == ds[i - 1])
                ds[i] = ds[i - 1]
            else:
                ds[i] = ds[i - 1]
            distinct.append(distinct[-1])
        else:
            run.date_lt(ds[i - 1], ds[i])
            distinct.append(distinct[-1] + 1)
    what = cfg['algo']
    if what == 'RunOnce':
        a = A.RunOnce()
        for i in range(L):
            equal_truth(run, a(target_of(ds[i], None)), i == 0, 'runonce', 'call %d' % i)
    elif what == 'RunOnDate':
        x, y, z = run.dayno('x'), run.dayno('y'), run.dayno('z')      # in any order, repeats allowed
        a = A.RunOnDate(x, y, z)
        for i in range(L):
            want = (ds[i] == x) | (ds[i] == y) | (ds[i] == z) if run.mode == 'sym' else (ds[i] == x or ds[i] == y or ds[i] == z)
            equal_truth(run, a(target_of(ds[i], None)), want, 'runondate', 'call %d' % i)
    elif what == 'RunAfterDate':
        x = run.dayno('x')
        a = A.RunAfterDate(x)
        for i in range(L):
            equal_truth(run, bool(a(target_of(ds[i], None))), ds[i] > x, 'runafterdate', 'call %d' % i)
    elif what == 'RunAfterDays':
        days = cfg['days']
        a = A.RunAfterDays(days)
        calls = 0
        for i in range(L):
            if i > 0 and distinct[i] == distinct[i - 1]:
                continue            # one call per distinct date (as a Backtest makes)
            equal_truth(run, a(target_of(ds[i], None)), calls >= days, 'runafterdays', 'distinct date #%d' % calls)
            calls += 1
    elif what == 'RunEveryNPeriods':
        n, off = cfg['n'], cfg['offset']
        a = A.RunEveryNPeriods(n, off)
        for i in range(L):
            repeat = i > 0 and distinct[i] == distinct[i - 1]
            c = distinct[i]
            want = (not repeat) and c >= off and (c - off) % n == 0
            equal_truth(run, a(target_of(ds[i], None)), want, 'runeverynperiods', 'call %d distinct #%d' % (i, c))
    else:
        raise ValueError(what)


HARNESSES = {'period': h_period, 'counting': h_counting}


def extra_checks(tier, seed):
    from symbt.symdate import validate_tables
    try:
        n = validate_tables()
        return [dict(name='calendar-formulas-vs-pandas', status='ok', days=n)]
    except AssertionError as e:
        return [dict(name='calendar-formulas-vs-pandas', status='error', detail=str(e))]


def plan(tier):
    quick = tier == 'quick'
    tasks = []
    for kind in ('RunDaily', 'RunWeekly', 'RunMonthly', 'RunQuarterly', 'RunYearly'):
        tasks.append(dict(harness='period', cfg=dict(algo=kind, n=4 if quick else 5), opts=dict(max_paths=20000, timeout_ms=20000)))
    L = 5 if quick else 6
    for what in ('RunOnce', 'RunOnDate', 'RunAfterDate'):
        tasks.append(dict(harness='counting', cfg=dict(algo=what, len=L), opts=dict(max_paths=20000)))
    for days in range(0, 5):
        tasks.append(dict(harness='counting', cfg=dict(algo='RunAfterDays', len=L, days=days), opts=dict(max_paths=20000)))
    for n in range(1, 5):
        for off in range(0, n):
            tasks.append(dict(harness='counting', cfg=dict(algo='RunEveryNPeriods', len=L, n=n, offset=off), opts=dict(max_paths=20000)))
    return tasks
