"""C15 - weighting algos produce the documented weights.

Real algos on a real strategy whose child weights are symbolic (symbolic positions and capital): WeighEqually, WeighSpecified (also re-used
after in-place modifiers), ScaleWeights, WeighTarget, LimitDeltas (float and per-ticker limits against the live weights), LimitWeights (ffn's
limit_weights executed on symbolic weights), WeighRandomly (random.uniform is a solver variable within its bounds: any RNG outcome),
TargetVol / PTE_Rebalance with the covariance a symbolic 2x2 PSD matrix and one sqrt atom."""
import pandas as pd

from harness.common import EPS_W, bt, dates, frame

BOUNDS = {
    'added': 'WeighERC / WeighMeanVar settings handed to the stubbed optimiser and its result published; WeighRandomly totals 0 and -0.5 with bounds straddling zero',
    'quick': '3-security tree with symbolic positions and capital (live weights symbolic); symbolic target weights in [-1,1] / [0,1]; limits from grids; selection a '
             'solver-chosen subset; WeighRandomly n<=3 with bounds/sum grids; TargetVol and PTE_Rebalance on 2 assets with symbolic covariance (s11,s22 in '
             '[1e-6,1e-2], |s12| <= sqrt(s11 s22)), degree <= 6; PTE_Rebalance also with held names and target columns differing (3x3 block-diagonal covariance); estimation window of both algos '
             'on two concrete daily calendars around month ends (31/30-day months, leap February) with month lookbacks and day lags 0..3',
    'thorough': 'same configurations with cvc5 second opinion on sampled obligations',
}
ASSUMPTIONS = ['WeighInvVol: the numeric risk relation is NOT claimed (ffn kernel concretises via np.std on the frame); its window is covered in C04',
               'WeighERC / WeighMeanVar: numerical optimality of ffn/scipy iterative optimisers is NOT claimed (floating-point kernels); only the wrapper is covered, in C04',
               'random.uniform(a,b) returns an arbitrary value in [a,b]; random.shuffle an arbitrary permutation (identity used)']
PR = {'a': [100.0, 105.0], 'b': [37.5, 33.0], 'c': [10.0, 12.5]}


def tree(run, cfg, nsec=3):
    B = bt()
    dts = dates(2)
    cols = ['a', 'b', 'c'][:nsec]
    data = frame(run, dts, cols, lambda i, c: PR[c][i])
    s = B.Strategy('s', [], cols)
    s.use_integer_positions(False)
    s.setup(data)
    s.update(dts[0])
    s.adjust(run.real('cap', 10 ** 5, 10 ** 6))
    for c in cols[:cfg.get('held', 2)]:
        s.transact(run.real('pos_' + c, -200, 200), c)
    s.update(dts[0])
    s.update(dts[1])
    if s.bankrupt:
        run.end('bankrupt')
    run.assume(s.value >= 1000)
    s.temp = {}
    return B, s, dts, cols


def h_direct(run, cfg):
    B, s, dts, cols = tree(run, cfg)
    A = B.algos
    what = cfg['algo']
    if what == 'WeighEqually':
        sel = [c for c in cols + ['zz'] if run.boolean('sel_' + c)]
        s.temp['selected'] = list(sel)
        A.WeighEqually()(s)
        w = s.temp['weights']
        run.check(sorted(w.keys()) == sorted(sel), 'equal-keys', str(w))
        for k in sel:
            run.check_near(w[k], 1.0 / len(sel), EPS_W, 'equal-weights', k)
        if sel:
            run.check_near(sum(w.values()), 1.0, EPS_W, 'equal-sum-one')
    elif what == 'WeighSpecified':
        spec = dict(a=0.625, b=0.25)
        alg = A.WeighSpecified(**spec)
        lim = A.LimitDeltas(0.125)
        for k in range(3):
            s.temp = {}
            alg(s)
            run.check(dict(s.temp['weights']) == spec, 'specified-weights', 'call %d: %s' % (k, s.temp['weights']))
            lim(s)                         # in-place modifier downstream must not change what the next call specifies
            s.temp['weights']['a'] = 9.0
        run.check(dict(alg.weights) == spec, 'specified-not-aliased', str(alg.weights))
    elif what == 'ScaleWeights':
        w0 = {'a': run.real('wa', -1, 1), 'b': run.real('wb', -1, 1)}
        k = cfg['scale']
        s.temp['weights'] = dict(w0)
        A.ScaleWeights(k)(s)
        for n in w0:
            run.check_near(s.temp['weights'][n], k * w0[n], EPS_W, 'scale-weights', n)
        run.check(sorted(s.temp['weights']) == sorted(w0), 'scale-keys')
    elif what == 'WeighTarget':
        nanrow = float('nan')
        tw = frame(run, dts, ['a', 'b', 'c'], lambda i, c: nanrow if (c == 'c' and i == 1) else run.real('tw_%d_%s' % (i, c), -1, 1))
        alg = A.WeighTarget(tw)
        ok = alg(s)
        run.check(ok is True, 'weightarget-true-on-known-date')
        w = s.temp['weights']
        run.check(sorted(list(w.index)) == ['a', 'b'], 'weightarget-drops-nan', str(list(w.index)))
        for n in ('a', 'b'):
            run.check_near(w[n], tw[n][dts[1]], EPS_W, 'weightarget-row-of-now', n)
        s.temp = {}
        alg2 = A.WeighTarget(tw.iloc[:1])
        run.check(alg2(s) is False and 'weights' not in s.temp, 'weightarget-false-on-missing-date')
    elif what == 'LimitDeltas':
        lim = cfg['limit']
        tgt = {'a': run.real('ta', -1, 1), 'c': run.real('tc', -1, 1)}          # b is held but not targeted; c is targeted but not held
        s.temp['weights'] = dict(tgt)
        cur = {c: (s.children[c].weight if c in s.children else 0.0) for c in cols}
        A.LimitDeltas(lim)(s)
        w = s.temp['weights']
        for n in cols:
            t = tgt.get(n, 0.0)
            c = cur[n]
            L = lim if not isinstance(lim, dict) else lim.get(n)
            new = w[n] if n in w else 0.0
            if L is None:
                run.check_near(new, t, EPS_W, 'limitdeltas-unlimited-ticker-unchanged', n)
                continue
            run.check_le(abs(new - c), L, EPS_W, 'limitdeltas-change-within-limit', n)
            d = t - c
            if bool(abs(d) <= L):
                run.check_near(new, t, EPS_W, 'limitdeltas-small-move-unchanged', n)
            elif bool(d > 0):
                run.check_near(new, c + L, EPS_W, 'limitdeltas-clipped', n)
            else:
                run.check_near(new, c - L, EPS_W, 'limitdeltas-clipped', n)
    elif what == 'LimitWeights':
        lim = cfg['limit']
        n = cfg['n']
        names = ['a', 'b', 'c'][:n]
        ws = [run.real('w%d' % i, 0, 1) for i in range(n - 1)]
        last = 1.0 - sum(ws)
        run.assume(last >= 0)
        w0 = dict(zip(names, ws + [last]))
        s.temp['weights'] = dict(w0)
        try:
            A.LimitWeights(lim)(s)
        except RecursionError:
            run.end('ffn-recursion')
        except ZeroDivisionError:
            run.end('ffn-zero-division')      # all uncapped weights are zero: ffn divides 0/0 (NaN in floats); environment, not bt
        w = s.temp['weights']
        if lim < 1.0 / n:
            run.check(len(w) == 0, 'limitweights-infeasible-gives-nothing', str(w))
        else:
            tot = 0.0
            for k in names:
                run.check_le(w[k], lim, EPS_W, 'limitweights-cap-respected', k)
                tot = tot + w[k]
            run.check_near(tot, 1.0, EPS_W, 'limitweights-total-preserved')
    else:
        raise ValueError(what)


class RandShim:
    """random.uniform -> arbitrary value in its bounds (a solver variable); shuffle -> identity"""
    def __init__(self, run):
        self.run = run
        self.k = 0

    def uniform(self, a, b):
        self.k += 1
        u = self.run.real('u%d' % self.k, -10, 10)
        if self.run.mode == 'sym':
            self.run.assume(u >= a)
            self.run.assume(u <= b)
        else:
            u = min(max(u, a), b)
        return u

    def shuffle(self, x):
        return None

    def __getattr__(self, k):
        import random
        return getattr(random, k)


def h_random(run, cfg):
    B = bt()
    import ffn.core as fc
    import types
    n = cfg['n']
    bounds = tuple(cfg['bounds'])
    total = cfg['total']
    s = types.SimpleNamespace(temp={'selected': ['x%d' % i for i in range(n)]})
    old = fc.random
    fc.random = RandShim(run)
    try:
        B.algos.WeighRandomly(bounds=bounds, weight_sum=total)(s)
    finally:
        fc.random = old
    w = s.temp['weights']
    feasible = n * bounds[1] >= total and n * bounds[0] <= total and n > 0
    if not feasible:
        run.check(w == {}, 'random-infeasible-gives-nothing', str(w))
        return
    run.check(sorted(w) == sorted(s.temp['selected']), 'random-keys')
    tot = 0.0
    for k, v in w.items():
        run.check_le(bounds[0], v, EPS_W, 'random-lower-bound', k)
        run.check_le(v, bounds[1], EPS_W, 'random-upper-bound', k)
        tot = tot + v
    run.check_near(tot, total, EPS_W, 'random-sum')


def sym_cov(run, names):
    s11 = run.real('s11', 1e-6, 1e-2)
    s22 = run.real('s22', 1e-6, 1e-2)
    s12 = run.real('s12', -1e-2, 1e-2)
    if run.mode == 'sym':
        run.assume(s12 * s12 <= s11 * s22)
    from symbt.shims import ObjFrame
    m = pd.DataFrame([[s11, s12], [s12, s22]], index=names, columns=names)
    return (ObjFrame(m.astype(object)) if run.mode == 'sym' else m.astype(float)), (s11, s12, s22)


def h_vol(run, cfg):
    """TargetVol scales the weights so that the ex-ante volatility equals the target; PTE_Rebalance fires iff tracking-error vol > cap"""
    B, s, dts, cols = tree(run, dict(cfg, held=2), nsec=2)
    A = B.algos
    covm, (s11, s12, s22) = sym_cov(run, ['a', 'b'])
    old = pd.DataFrame.cov
    pd.DataFrame.cov = lambda self, *a, **k: covm
    af = 252
    try:
        if cfg['algo'] == 'TargetVol':
            wa, wb = cfg['w']
            T = cfg['target']
            s.temp['weights'] = {'a': wa, 'b': wb}
            try:
                A.TargetVol(T, lookback=pd.DateOffset(days=1), annualization_factor=af)(s)
            except ZeroDivisionError:
                run.end('zero-vol')
            w = s.temp['weights']
            q = (w['a'] * w['a'] * s11 + 2 * w['a'] * w['b'] * s12 + w['b'] * w['b'] * s22) * af
            run.check_near(q, T * T, 1e-7, 'targetvol-exante-vol-equals-target')
            # direction preserved
            run.check_near(w['a'] * wb, w['b'] * wa, 1e-7, 'targetvol-keeps-proportions')
        elif cfg.get('mismatch'):
            # held names and target columns differ: b is held without a target, c has a target and was never traded
            pd.DataFrame.cov = old
            B, s, dts, cols = tree(run, dict(cfg, held=2), nsec=3)
            A = B.algos
            s33 = run.real('s33', 1e-6, 1e-2)
            names = ['a', 'b', 'c']
            m = pd.DataFrame([[s11, s12, 0.0], [s12, s22, 0.0], [0.0, 0.0, s33]], index=names, columns=names)
            from symbt.shims import ObjFrame
            cov3 = ObjFrame(m.astype(object)) if run.mode == 'sym' else m.astype(float)
            pd.DataFrame.cov = lambda self, *a, **k: cov3.loc[list(self.columns), list(self.columns)]
            cap = cfg['cap']
            tw = pd.DataFrame({'a': [0.5, 0.5], 'c': [0.25, 0.25]}, index=dts)
            res = A.PTE_Rebalance(cap, tw, lookback=pd.DateOffset(days=1), annualization_factor=af)(s)
            da = s['a'].weight - 0.5
            db = s['b'].weight
            dc = -0.25
            q = (da * da * s11 + 2 * da * db * s12 + db * db * s22 + dc * dc * s33) * af
            cond = q > cap * cap
            if run.mode == 'sym':
                from symbt.sym import SymBool
                if isinstance(cond, SymBool):
                    run.check(cond if res else ~cond, 'pte-fires-iff-vol-above-cap', 'names differ; returned %s' % res)
                    return
            run.check(bool(res) == bool(cond), 'pte-fires-iff-vol-above-cap', 'names differ; returned %s' % res)
        else:
            cap = cfg['cap']
            tw = pd.DataFrame({'a': [0.5, 0.5], 'b': [0.25, 0.25]}, index=dts)
            res = A.PTE_Rebalance(cap, tw, lookback=pd.DateOffset(days=1), annualization_factor=af)(s)
            da = s['a'].weight - 0.5
            db = s['b'].weight - 0.25
            q = (da * da * s11 + 2 * da * db * s12 + db * db * s22) * af
            cond = q > cap * cap
            if run.mode == 'sym':
                from symbt.sym import SymBool
                if isinstance(cond, SymBool):
                    run.check(cond if res else ~cond, 'pte-fires-iff-vol-above-cap', 'returned %s' % res)
                    return
            run.check(bool(res) == bool(cond), 'pte-fires-iff-vol-above-cap', 'returned %s' % res)
    finally:
        pd.DataFrame.cov = old


def h_vol_window(run, cfg):
    """The estimation window of TargetVol / PTE_Rebalance is [ (now - lag) - lookback, now - lag ]: the rows handed to the covariance estimator are
    recorded by a stub and compared with that window on calendars where month arithmetic does not commute with day arithmetic."""
    B = bt()
    A = B.algos
    dts = pd.date_range(cfg['start'], periods=cfg['n'], freq='D')
    data = frame(run, dts, ['a', 'b'], lambda i, c: 100.0 + (i * 7 % 5) if c == 'a' else 40.0 + (i * 3 % 7))
    s = B.Strategy('s', [], ['a', 'b'])
    s.use_integer_positions(False)
    s.setup(data)
    s.update(dts[0])
    s.adjust(1000000.0)
    s.transact(100.0, 'a')
    s.transact(50.0, 'b')
    s.update(dts[0])
    seen = []
    covm = pd.DataFrame([[1e-4, 2e-5], [2e-5, 4e-4]], index=['a', 'b'], columns=['a', 'b'])     # the estimate itself is the subject of `vol`
    old = pd.DataFrame.cov

    def cov(self, *a, **k):
        seen.append(list(self.index))
        return covm
    pd.DataFrame.cov = cov
    try:
        lookback = pd.DateOffset(months=cfg['months'])
        for now in [pd.Timestamp(x) for x in cfg['probes']]:
            s.update(now)
            for lagdays in cfg['lags']:
                lag = pd.DateOffset(days=lagdays)
                t0 = now - lag
                want = [d for d in dts if t0 - lookback <= d <= t0]
                for what in ('TargetVol', 'PTE_Rebalance'):
                    del seen[:]
                    if what == 'TargetVol':
                        s.temp = {'weights': {'a': 0.5, 'b': 0.5}}
                        A.TargetVol(0.125, lookback=lookback, lag=lag)(s)
                    else:
                        tw = pd.DataFrame({'a': 0.5, 'b': 0.25}, index=dts)
                        A.PTE_Rebalance(0.125, tw, lookback=lookback, lag=lag)(s)
                    run.check(len(seen) == 1 and seen[0] == want, 'estimation-window', '%s now=%s lag=%dd lookback=%dm: rows %s..%s (%d), expected %s..%s (%d)' % (
                        what, now.date(), lagdays, cfg['months'], seen[0][0].date() if seen and seen[0] else None, seen[0][-1].date() if seen and seen[0] else None,
                        len(seen[0]) if seen else -1, want[0].date(), want[-1].date(), len(want)))
    finally:
        pd.DataFrame.cov = old


def h_invvol(run, cfg):
    """WeighInvVol on 2 assets: weights non-negative, sum to one, w_i * sigma_i equal (ffn kernel executed symbolically)"""
    B = bt()
    A = B.algos
    dts = dates(4)
    data = frame(run, dts, ['a', 'b'], lambda i, c: run.real('p_%d_%s' % (i, c), 50, 150))
    s = B.Strategy('s', [], ['a', 'b'])
    s.setup(data)
    for d in dts:
        s.update(d)
    s.temp = {'selected': ['a', 'b']}
    A.WeighInvVol(lookback=pd.DateOffset(days=3))(s)
    w = s.temp['weights']
    run.check_le(0.0, w['a'], EPS_W, 'invvol-nonnegative', 'a')
    run.check_le(0.0, w['b'], EPS_W, 'invvol-nonnegative', 'b')
    run.check_near(w['a'] + w['b'], 1.0, 1e-7, 'invvol-sum-one')


def h_optimiser_wrapper(run, cfg):
    """WeighERC / WeighMeanVar hand the user's settings to ffn's optimiser unchanged (the optimiser itself is environment: stubbed, its arguments
    recorded) and publish its result as the weights"""
    B = bt()
    A = B.algos
    dts = dates(5)
    data = frame(run, dts, ['a', 'b', 'c'], lambda i, c: {'a': 100.0, 'b': 40.0, 'c': 10.0}[c] * (1 + 0.0625 * ((i * 3 + ord(c)) % 4)))
    s = B.Strategy('s', [], ['a', 'b', 'c'])
    s.setup(data)
    for d in dts:
        s.update(d)
    seen = {}
    out = pd.Series({'a': run.real('wa', 0, 1), 'b': run.real('wb', 0, 1), 'c': 0.125}, dtype=object if run.mode == 'sym' else float)

    def rec(name):
        def f(returns, **kw):
            seen[name] = (list(returns.columns), kw)
            return out
        return f
    real_ffn = B.ffn

    class Proxy:
        def __getattr__(self, k):
            if k in ('calc_erc_weights', 'calc_mean_var_weights'):
                return rec(k)
            return getattr(real_ffn, k)
    holder = B
    old_ffn = holder.ffn
    holder.ffn = Proxy()
    try:
        s.temp = {'selected': ['a', 'b', 'c']}
        iw, rw = [0.5, 0.25, 0.25], [0.625, 0.25, 0.125]
        A.WeighERC(lookback=pd.DateOffset(days=3), initial_weights=iw, risk_weights=rw, covar_method='standard', risk_parity_method='slsqp',
                   maximum_iterations=37, tolerance=1e-5)(s)
        cols, kw = seen['calc_erc_weights']
        run.check(cols == ['a', 'b', 'c'], 'erc-window-columns', str(cols))
        for k, v in (('initial_weights', iw), ('risk_weights', rw), ('covar_method', 'standard'), ('risk_parity_method', 'slsqp'), ('maximum_iterations', 37), ('tolerance', 1e-5)):
            run.check(k in kw and kw[k] is v or kw.get(k) == v, 'erc-setting-passed-through', '%s: %r (given %r)' % (k, kw.get(k), v))
        w = s.temp['weights']
        for n in ('a', 'b', 'c'):
            run.check_near(w[n], out[n], EPS_W, 'erc-weights-are-the-optimiser-result', n)
        s.temp = {'selected': ['a', 'b', 'c']}
        bounds = (0.0625, 0.75)
        A.WeighMeanVar(lookback=pd.DateOffset(days=3), bounds=bounds, covar_method='standard', rf=0.03125)(s)
        cols, kw = seen['calc_mean_var_weights']
        run.check(cols == ['a', 'b', 'c'], 'meanvar-window-columns', str(cols))
        for k, v in (('weight_bounds', bounds), ('covar_method', 'standard'), ('rf', 0.03125)):
            run.check(kw.get(k) == v, 'meanvar-setting-passed-through', '%s: %r (given %r)' % (k, kw.get(k), v))
        w = s.temp['weights']
        for n in ('a', 'b', 'c'):
            run.check_near(w[n], out[n], EPS_W, 'meanvar-weights-are-the-optimiser-result', n)
    finally:
        holder.ffn = old_ffn


HARNESSES = {'optimiser_wrapper': h_optimiser_wrapper, 'direct': h_direct, 'random': h_random, 'vol': h_vol, 'vol_window': h_vol_window, 'invvol': h_invvol}
WITNESS_CAP = {'quick': 150, 'thorough': 300}


def plan(tier):
    quick = tier == 'quick'
    opts = dict(max_paths=20000, timeout_ms=10000)
    tasks = [dict(harness='direct', cfg=dict(algo='WeighEqually'), opts=opts), dict(harness='direct', cfg=dict(algo='WeighSpecified'), opts=opts),
             dict(harness='direct', cfg=dict(algo='WeighTarget'), opts=opts)]
    for k in (-1.0, 0.5, 2.0):
        tasks.append(dict(harness='direct', cfg=dict(algo='ScaleWeights', scale=k), opts=opts))
    for lim in (0.125, 0.5, {'a': 0.125, 'c': 0.25}, {'b': 0.0625}, {'a': 0.25, 'b': 0.125, 'c': 0.0625}):
        tasks.append(dict(harness='direct', cfg=dict(algo='LimitDeltas', limit=lim, held=2), opts=opts))
    for n in (2, 3):
        for lim in (0.25, 0.4, 0.5, 0.75, 1.0):
            tasks.append(dict(harness='direct', cfg=dict(algo='LimitWeights', limit=lim, n=n, held=0), opts=dict(opts, max_paths=3000)))
    for n in (0, 1, 2, 3):
        for bounds, total in (((0.0, 1.0), 1), ((0.125, 0.5), 1), ((-0.5, 0.75), 0.5), ((0.0, 0.25), 1)):
            tasks.append(dict(harness='random', cfg=dict(n=n, bounds=list(bounds), total=total), opts=opts))
    vopts = dict(max_paths=2000, timeout_ms=20000)
    tasks.append(dict(harness='optimiser_wrapper', cfg={}, opts=opts))
    for n in (2, 3):
        tasks.append(dict(harness='random', cfg=dict(n=n, bounds=[-0.5, 0.5], total=0), opts=opts))
        tasks.append(dict(harness='random', cfg=dict(n=n, bounds=[-1.0, 0.25], total=-0.5), opts=opts))
    for w in ((0.5, 0.5), (0.75, -0.25)):
        for T in (0.125, 0.25):
            tasks.append(dict(harness='vol', cfg=dict(algo='TargetVol', w=list(w), target=T, deg_limit=8), opts=vopts))
    for cap in (0.0625, 0.25):
        tasks.append(dict(harness='vol', cfg=dict(algo='PTE_Rebalance', cap=cap, deg_limit=8), opts=vopts))
        tasks.append(dict(harness='vol', cfg=dict(algo='PTE_Rebalance', cap=cap, mismatch=1, deg_limit=8), opts=vopts))
    tasks.append(dict(harness='vol_window', cfg=dict(start='2010-04-25', n=40, months=1, lags=[0, 1, 2], probes=['2010-05-29', '2010-05-30', '2010-05-31', '2010-06-01']), opts=vopts))
    tasks.append(dict(harness='vol_window', cfg=dict(start='2011-12-20', n=75, months=2, lags=[1, 3], probes=['2012-02-29', '2012-03-01', '2012-03-02']), opts=vopts))
    # WeighInvVol's risk relation is not claimed: ffn's kernel reduces with np.std / np.isinf on the frame, which concretises symbolic cells
    # (measured: 'float() of a symbolic real' at algos.py WeighInvVol.__call__); its window arithmetic is covered by C04.
    return tasks
