"""C03 - the root price index is a flow-neutral return index starting at 100.

(1) recurrence on every date of symbolic operation histories:  price[t] * (value[t-1] + flows[t]) = price[t-1] * value[t], price[-1] = 100,
    value[-1] = 0, with flows[t] the flow adjustments the harness injected (ghost), so a non-flow adjustment, a fee or a spread counted
    as a flow (or a flow not counted) is a violation;  (2) a flow adjustment never moves the current price;  (3) scale invariance: with
    fractional positions and proportional costs the whole index of a multi-date script is free of the capital variable."""
import itertools

from harness import opslib as O
from harness.common import EPS_W, bt, dates, frame

BOUNDS = {
    'quick': 'shapes S1, S3, SC; 3-4 dates; arbitrary prior portfolio + K=2 operation sequences incl. several flows per date of either sign; solvent and '
             'degenerate (capital from 0, value may hit exactly 0) pre-states; scale invariance on a 4-date rebalancing script with capital in [1e3, 1e7] (below that the absolute sizing tolerance of 1e-8 in bt shows at 1e-9 relative: outside the claim), '
             'flows proportional to capital, proportional commission 1%, bid/offer off (a fixed spread is not size-proportional)',
    'thorough': 'adds S4/S5, K=3 on S1',
}
ASSUMPTIONS = ['index ratio compared with 1e-9 absolute slack on a scale of 100', 'paths on which the root goes bankrupt end (C16)']
EPS_P = 1e-7


def h_recurrence(run, cfg):
    w = O.build(run, cfg)
    g = O.Ghost(w)
    O.fund(run, w, prior=True, ghost=g)
    root = w.root
    if root.bankrupt:
        run.end('bankrupt')

    O.do_ops_ghost(run, w, cfg['ops'], g)
    # reads never move the clock: the index series must exist up to the date the harness advanced to
    if root.now != w.dts[w.di]:
        run.fail('index-recorded-on-every-date', 'root clock is %s after the sequence, the harness advanced it to %s' % (root.now, w.dts[w.di]))
    O.sync(w)
    P = root.prices
    V = root.values
    for di in range(w.di + 1):
        d = w.dts[di]
        p_prev = P[w.dts[di - 1]] if di > 0 else 100.0
        v_prev = V[w.dts[di - 1]] if di > 0 else 0.0
        base = v_prev + g.flows.get(di, 0.0)
        if bool(abs(base) >= 1):
            # price[t]/price[t-1] = value[t]/(value[t-1]+flows[t])
            run.check_near(P[d] * base, p_prev * V[d], EPS_P * 1000, 'index-recurrence', 'date %d' % di)
    run.check_near(100.0, 100.0, EPS_P, 'starts-at-100')


def h_flowneutral(run, cfg):
    """with no P&L (cash only, or positions at unchanged prices) any sequence of flows of either sign leaves the index at its value"""
    B = bt()
    C = B.core
    dts = dates(3)
    data = frame(run, dts, ['a'], lambda i, c: 100.0)           # flat prices: no mark-to-market P&L
    s = C.StrategyBase('s', [C.SecurityBase('a')])
    s.use_integer_positions(False)
    s.setup(data)
    s.update(dts[0])
    s.adjust(run.real('cap', 1000, 10 ** 7))
    s.transact(run.real('pos', 0, 5), 'a')
    s.update(dts[0])
    run.check_near(s.price, 100.0, EPS_P, 'starts-at-100')
    for i in (1, 2):
        s.update(dts[i])
        for j in range(2):
            s.adjust(run.real('f%d%d' % (i, j), -400, 10 ** 6))
            run.check_near(s.price, 100.0, EPS_P, 'flow-does-not-move-index', 'date %d flow %d' % (i, j))
        s.update(dts[i])
    for d in dts:
        run.check_near(s.prices[d], 100.0, EPS_P, 'flow-does-not-move-index', 'recorded %s' % d)


def h_capitalflow(run, cfg):
    """CapitalFlow algos inside a real Backtest: the index follows the recurrence with the flows the algos injected, whatever else runs that date"""
    B = bt()
    A = B.algos
    dts = dates(4)
    PR4 = {'a': [100.0, 105.0, 95.0, 101.5], 'b': [37.5, 33.0, 41.25, 40.0]}
    data = frame(run, dts, ['a', 'b'], lambda i, c: PR4[c][i])
    flow = cfg['flow']
    ran = {}

    class Flow(A.CapitalFlow):
        # the real CapitalFlow; the harness only notes on which dates it actually ran (a scheduler earlier in the stack may stop the stack)
        def __call__(self, target):
            if target is live.get('s'):
                ran[target.now] = ran.get(target.now, 0.0) + self.amount
            return super().__call__(target)
    live = {}
    stacks = {
        'flow_only': [Flow(flow)],
        'flow_then_idle': [Flow(flow), A.RunOnce(), A.SelectAll(), A.WeighSpecified(a=0.5, b=0.25), A.Rebalance()],
        'rebalance_then_flow': [A.RunDaily(), A.SelectAll(), A.WeighSpecified(a=0.5, b=0.25), A.Rebalance(), Flow(flow)],
        'flow_then_rebalance': [Flow(flow), A.SelectAll(), A.WeighSpecified(a=0.5, b=0.25), A.Rebalance()],
    }
    s = B.Strategy('s', stacks[cfg['stack']])
    cap = run.real('cap', 10 ** 4, 10 ** 7)
    t = B.Backtest(s, data, initial_capital=cap, integer_positions=False)
    live['s'] = t.strategy
    try:
        t.run()
    except ZeroDivisionError:
        run.end('zero-base')
    st = t.strategy
    if st.bankrupt:
        run.end('bankrupt')
    P, V = st.prices, st.values
    idx = list(P.index)
    run.check_near(P.iloc[0], 100.0, EPS_P, 'starts-at-100')
    run.check_near(V.iloc[0], cap, 1e-6, 'initial-capital-enters-as-flow')
    for i in range(1, len(idx)):
        f_i = ran.get(idx[i], 0.0)
        base = V.iloc[i - 1] + f_i
        run.check_near(P.iloc[i] * base, P.iloc[i - 1] * V.iloc[i], EPS_P * 1000, 'index-recurrence', 'date %s' % idx[i])
        run.check_near(st.flows.iloc[i], f_i, 1e-6, 'flow-row', str(idx[i]))


def _scale_script(B, run, cfg, lam):
    C = B.core
    dts = dates(4)
    PR = {'a': [100.0, 105.0, 95.0, 101.5], 'b': [37.5, 33.0, 41.25, 40.0]}
    data = frame(run, dts, ['a', 'b'], lambda i, c: PR[c][i])
    s = C.StrategyBase('s', [C.SecurityBase('a'), C.SecurityBase('b', multiplier=10.0)])
    s.use_integer_positions(False)
    fee_b = cfg.get('fee', 0.0078125)
    if fee_b:
        s.set_commissions(lambda q, p: fee_b * abs(q) * p)
    s.setup(data)
    s.update(dts[0])
    s.adjust(lam)
    for i, (wa, wb, fl) in enumerate(cfg['weights']):
        s.update(dts[i])
        if fl:
            s.adjust(lam * fl)
        base = s.value
        s.rebalance(wa, 'a', base=base, update=False)
        s.rebalance(wb, 'b', base=base, update=False)
        s.update(dts[i])
    return s


def h_scale(run, cfg):
    """the index of a multi-date script is the same for every capital multiple (fractional positions, proportional commission): the run with a
    symbolic capital is compared, on every path, with the same script at capital 1e6"""
    B = bt()
    # capital from 1000 currency units up: bt's sizing search stops at an ABSOLUTE residual of 1e-8 (np.isclose's default atol), which is a relative
    # 1e-8/amount of the trade - below ~1000 units of capital that documented tolerance shows in the index at 1e-9 relative (1e-7 absolute on an
    # index of ~100, this check's tolerance); stated, outside the claim
    lam = run.real('capital', 1000, 10 ** 7)
    try:
        s = _scale_script(B, run, cfg, lam)
        ref = _scale_script(B, run, cfg, 1000000.0)
    except Exception as e:
        run.fail('scale-run-completes', repr(e))
    if s.bankrupt or ref.bankrupt:
        run.end('bankrupt')
    P, R = s.prices, ref.prices
    for i in range(len(cfg['weights'])):
        run.check_near(P.iloc[i], R.iloc[i], 1e-7, 'index-independent-of-capital', 'date %d: %r vs %r at capital 1e6' % (i, P.iloc[i], R.iloc[i]))


HARNESSES = {'recurrence': h_recurrence, 'scale': h_scale, 'flowneutral': h_flowneutral, 'capitalflow': h_capitalflow}
DEFER_ORACLE_UNSUPPORTED = True      # recurrence products beyond degree 3 are evaluated on the path's model by the concrete replay
WITNESS_CAP = {'quick': 120, 'thorough': 300}


def alphabet(shape):
    if shape in ('S1', 'SC'):
        return [['adjust'], ['adjust_nf'], ['alloc', 'a'], ['transact', 'b'], ['close', 'a'], ['flatten'], ['next'], ['rebal', 'b', 0.25]]
    from harness.C07 import alphabet as a7
    return a7(shape)


def plan(tier):
    from harness.C01 import _cfgs, SIZING
    quick = tier == 'quick'
    opts = dict(max_paths=3000, timeout_ms=5000 if quick else 20000)
    tasks = []
    for shape in (['S1', 'SC', 'S3'] if quick else ['S1', 'SC', 'S3', 'S4', 'S5']):
        seqs = list(itertools.product(alphabet(shape), repeat=2))
        for integer in (0, 1):
            sel = seqs
            if quick:
                sel = seqs[integer::2] if shape == 'S1' else (seqs[integer::4] if not integer else seqs[1::9])
                if integer and shape == 'S1':
                    sel = seqs[1::5]
            for seq in sel:
                for cfg in _cfgs(shape, seq, integer, tier):
                    cfg.update(tail_next=1)
                    if shape == 'SC':
                        cfg.update(ndates=4)
                    tasks.append(dict(harness='recurrence', cfg=cfg, opts=opts))
    # degenerate pre-states: capital from 0, value may be exactly 0 while the flow-adjusted base is not
    degs = [(['adjust_nf'], ['next']), (['adjust'], ['adjust_nf']), (['adjust_nf'], ['adjust']), (['next'], ['adjust_nf']), (['transact', 'b'], ['next']),
            (['adjust'], ['next'])]
    if not quick:
        degs = [s for s in itertools.product(alphabet('S1'), repeat=2) if not any(op[0] in SIZING for op in s)]
    for seq in degs:
        cfg = dict(shape='S1', int=0, fee=['uf'], spread=1, ops=[list(o) for o in seq], mult=1, solvent=0, tail_next=1)
        tasks.append(dict(harness='recurrence', cfg=cfg, opts=opts))
    # two date changes first (a security that was never held stops being refreshed, its own clock lags), then a flow and a weight read
    for seq in ((['adjust', 'a'], ['read']), (['adjust', 'a'], ['adjust']), (['transact', 'b'], ['adjust', 'a']), (['adjust', 'b'], ['adjust', 'a'])):
        for pa in (0, None):
            cfg = dict(shape='S1', int=0, fee=['uf'], spread=1, ops=[list(o) for o in seq], mult=1, lead_next=2, tail_next=0, ndates=4)
            if pa is not None:
                cfg['prior_fixed'] = {'a': 0.0}
            tasks.append(dict(harness='recurrence', cfg=cfg, opts=opts))
    tasks.append(dict(harness='flowneutral', cfg={}, opts=opts))
    for stk in ('flow_only', 'flow_then_idle', 'rebalance_then_flow', 'flow_then_rebalance'):
        for fl in (2500.0, -1000.0, 7.5):
            tasks.append(dict(harness='capitalflow', cfg=dict(stack=stk, flow=fl), opts=opts))
    for ws in ([[0.625, 0.25, 0], [0.25, 0.5, 0.5], [0.5, -0.25, -0.25], [0.0, 0.75, 0]], [[1.0, 0.0, 0], [0.0, 1.0, 1.0], [0.5, 0.5, 0], [0.25, 0.25, -0.5]]):
        for fee in (0.0078125, 0.0):
            tasks.append(dict(harness='scale', cfg=dict(weights=ws, fee=fee), opts=opts))
    return tasks
