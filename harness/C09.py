"""C09 - a sub-strategy's index equals its stand-alone index, whatever it is allocated.

Relational: the same child definition (stack gated by a calendar scheduler) is run (a) nested under a parent that allocates it symbolic
fractions of symbolic capital on solver-chosen dates (including never), and (b) on its own over the same data with the same settings;
child.prices must equal the stand-alone prices date for date, and be what the parent sees in its universe."""
from harness.common import bt, frame
import pandas as pd

BOUNDS = {
    'quick': '5 business dates spanning a month end, tickers a,b (child) and c (parent), grid prices; child catalogue: daily equal-weight, daily 75/25 '
             'with 0.2% commission, monthly equal-weight, daily long/short; parent: symbolic capital, symbolic child weight re-set on solver-chosen '
             'dates (incl. never), optionally short c with symbolic later prices so that the parent may go bankrupt; fractional and whole-unit positions',
    'thorough': 'adds symbolic prices for a,b on the last date, two children re-weighted against each other',
}
ASSUMPTIONS = ['child stacks are gated by a calendar scheduler (children acting on the synthetic pre-start row are outside the statement)',
               'index compared with 1e-7 slack on a scale of 100']
EPS_P = 1e-7

DTS = pd.DatetimeIndex(['2010-01-28', '2010-01-29', '2010-02-01', '2010-02-02', '2010-02-03'])
PR = {'a': [100.0, 105.0, 95.0, 101.5, 98.0], 'b': [37.5, 33.0, 41.25, 40.0, 42.5], 'c': [10.0, 11.0, 12.5, 9.75, 10.5]}


def child_def(B, kind):
    A = B.algos
    if kind == 'daily_eq':
        return [A.RunDaily(), A.SelectAll(), A.WeighEqually(), A.Rebalance()]
    if kind == 'daily_7525':
        return [A.RunDaily(), A.SelectAll(), A.WeighSpecified(a=0.75, b=0.25), A.Rebalance()]
    if kind == 'monthly_eq':
        return [A.RunMonthly(), A.SelectAll(), A.WeighEqually(), A.Rebalance()]
    if kind == 'daily_ls':
        return [A.RunDaily(), A.SelectAll(), A.WeighSpecified(a=1.25, b=-0.5), A.Rebalance()]
    raise ValueError(kind)


def h_nested(run, cfg):
    B = bt()
    A = B.algos
    symc = cfg.get('symc', 0)

    def price(i, c):
        if c == 'c' and symc and i == 2:      # early enough that two more dates follow a bankruptcy of the parent
            return run.real('pc%d' % i, 0.5, 1000)
        return PR[c][i]
    data = frame(run, DTS, ['a', 'b', 'c'], price)
    integer = bool(cfg.get('int', 0))
    fee = (lambda q, p: 0.001953125 * abs(q) * p) if cfg.get('fee') else None
    kid = B.Strategy('kid', child_def(B, cfg['child']), ['a', 'b'])
    add = None
    if cfg.get('bidoffer'):
        add = {'bidoffer': frame(run, DTS, ['a', 'b', 'c'], lambda i, c: {'a': 0.5, 'b': 0.25, 'c': 0.125}[c])}
    n = len(DTS)
    if cfg.get('does') == 'all':
        does = [True] * n
    elif cfg.get('does') == 'early':
        does = [i < 2 for i in range(n)]        # the parent re-weights on the first two dates only (keeps later arithmetic linear in the symbolic price)
    else:
        does = [run.boolean('do%d' % i) for i in range(n)]
    GW = [0.5, 0.25, 0.75, 0.375, 0.625]
    k = int(cfg.get('symw', 1))        # the first k re-weights use a symbolic child weight, the rest grid weights (keeps degree <= 3)
    ws = [run.real('w%d' % i, 0.125, 0.875) if i < k else GW[i] for i in range(n)]
    wc = cfg.get('wc', 0.125)

    class Gate(B.Algo):
        def __call__(self, target):
            i = list(DTS).index(target.now) if target.now in DTS else None
            if i is None or not does[i]:
                return False
            target.temp['weights'] = {'kid': ws[i], 'c': wc}
            return True
    if cfg.get('levels') == 3:
        # root -> mid -> kid : the innermost strategy must still equal its stand-alone run (same commissions reach it)
        mid = B.Strategy('mid', [A.RunDaily(), A.WeighSpecified(kid=0.75), A.Rebalance()], [kid])

        class Gate3(B.Algo):
            def __call__(self, target):
                i = list(DTS).index(target.now) if target.now in DTS else None
                if i is None or not does[i]:
                    return False
                target.temp['weights'] = {'mid': ws[i], 'c': wc}
                return True
        par = B.Strategy('par', [A.RunDaily(), Gate3(), A.Rebalance()], [mid, 'c'])
    else:
        par = B.Strategy('par', [A.RunDaily(), Gate(), A.Rebalance()], [kid, 'c'])
    if cfg.get('capgrid'):
        cap = float(cfg['capgrid'])       # whole-unit sizing below a sub-allocation with symbolic capital stalls z3: concrete capital there
    else:
        cap = run.real('cap', 10 ** 4, 10 ** 7)
    t = B.Backtest(par, data, initial_capital=cap, integer_positions=integer, commissions=fee, additional_data=add)
    t2 = B.Backtest(B.Strategy('kid', child_def(B, cfg['child']), ['a', 'b']), data, integer_positions=integer, commissions=fee, additional_data=add)
    try:
        t2.run()
    except Exception as e:
        run.end('standalone-raised')
    try:
        t.run()
    except ZeroDivisionError:
        run.end('zero-base')
    except Exception as e:
        run.note('raised', repr(e)[:150])
        run.end('raised')
    holder = t.strategy['mid'] if cfg.get('levels') == 3 else t.strategy
    kp = holder['kid'].prices
    sp = t2.strategy.prices
    run.check(len(kp) == len(sp), 'child-index-length', '%d vs %d' % (len(kp), len(sp)))
    for i in range(len(sp)):
        run.check_near(kp.iloc[i], sp.iloc[i], EPS_P, 'child-index=standalone-index', 'date %s' % sp.index[i])
    full = holder._universe['kid']
    for i in range(1, len(sp)):
        d = sp.index[i]
        if d in full.index:
            v = full[d]
            if isinstance(v, float) and v != v:
                run.fail('parent-universe-carries-child-price', 'NaN on %s' % d)
            run.check_near(v, sp.iloc[i], EPS_P, 'parent-universe-carries-child-price', 'date %s' % d)


HARNESSES = {'nested': h_nested}
WITNESS_CAP = {'quick': 100, 'thorough': 300}


def plan(tier):
    quick = tier == 'quick'
    opts = dict(max_paths=4000, timeout_ms=5000 if quick else 20000)
    tasks = []
    for child in ('daily_eq', 'daily_7525', 'monthly_eq', 'daily_ls'):
        for integer in (0, 1):
            for fee in (0, 1):
                if quick and integer and fee:
                    continue
                cfg = dict(child=child, int=integer, fee=fee, symw=0 if (integer or fee) else 1)
                if integer:
                    cfg['capgrid'] = 123456.0
                tasks.append(dict(harness='nested', cfg=cfg, opts=opts))
    # parent short c with symbolic later prices: the parent may go bankrupt while the child definition is healthy
    for child in ('daily_eq', 'monthly_eq'):
        tasks.append(dict(harness='nested', cfg=dict(child=child, int=0, fee=0, symw=0, symc=1, wc=-1.25, does='early', capgrid=200000.0), opts=opts))
    for child in ('daily_eq', 'daily_7525'):
        tasks.append(dict(harness='nested', cfg=dict(child=child, int=0, fee=1, symw=0, levels=3, does='all', capgrid=500000.0), opts=opts))
        tasks.append(dict(harness='nested', cfg=dict(child=child, int=0, fee=0, symw=0, bidoffer=1, capgrid=500000.0), opts=opts))
        tasks.append(dict(harness='nested', cfg=dict(child=child, int=0, fee=1, symw=0, bidoffer=1, levels=3, does='all', capgrid=500000.0), opts=opts))
    return tasks
