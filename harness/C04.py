"""C04 - no look-ahead: results up to a date ignore all later data.

For a cut date t every supplied data cell dated after t (prices, signals, target weights, stats, bid/offer, coupons, unit risks) is a
fresh symbolic variable; cells dated <= t are concrete.  The real Backtest.run is executed with a StopAfter(t) algo prepended.  A leak is:
  (a) a branch decision on a future cell taken while now <= t,  (b) a recorded row dated <= t (any node's prices / values / positions /
  cash / fees / outlays / notional values, risk rows) that is not a constant,  (c) an intermediate result handed between algos while
  now <= t (temp['selected'|'stat'|'weights'], node.risk) that mentions a future cell, or a numeric kernel (ffn, cov) fed a future cell.
In concrete replay the same script is run with the model's future and with unrelated futures and the histories up to t are compared."""
import hashlib

import numpy as np
import pandas as pd

from harness.common import bt, frame

BOUNDS = {
    'quick': '6 business dates with a gap (and an intraday variant), 3 tickers incl. a late listing; every cut date; stack catalogue of 9 stacks covering '
             'RunDaily/Weekly/Monthly(end of period), SelectAll/HasData/Momentum/N/Where/These, SetStat (dense and sparse stat frames), StatTotalReturn, '
             'WeighEqually/Specified/Target/InvVol/ERC/MeanVar(wrapper), TargetVol, LimitDeltas/LimitWeights, Rebalance/RebalanceOverTime, UpdateRisk+HedgeRisks, '
             'nested tree, fixed-income tree with coupons; lookback in {1d,2d,3d}, lag in {0,1d}',
    'thorough': 'adds run_on_end_of_period variants, PTE_Rebalance, bid/offer data, more lag/lookback pairs',
}
ASSUMPTIONS = ['WeighERC / WeighMeanVar: ffn\'s iterative optimisers are replaced by a deterministic function of exactly the window handed in; other ffn / numeric kernels are environment: they are fed concrete windows (a future cell reaching a kernel while now <= t is itself reported)',
               'future cells range over [0.5, 1000] (prices), [0,1] (weights/signals), [-5,5] (coupons, unit risks)']

DTS_D = pd.DatetimeIndex(['2010-01-04', '2010-01-05', '2010-01-06', '2010-01-08', '2010-01-11', '2010-01-12'])
DTS_I = pd.DatetimeIndex(['2010-01-04 10:00', '2010-01-04 15:00', '2010-01-05 10:00', '2010-01-05 15:00', '2010-01-06 10:00', '2010-01-06 15:00'])
G = {'a': [100.0, 105.0, 95.0, 97.0, 99.5, 101.0], 'b': [37.5, 33.0, 41.25, 40.0, 39.0, 38.0], 'c': [float('nan'), 11.0, 12.5, 12.0, 13.0, 12.75]}


class Cut(BaseException):
    pass


class Leak(BaseException):
    def __init__(self, what):
        self.what = what


def alt_value(name, k, lo, hi):
    h = int(hashlib.sha1(('%s/%d' % (name, k)).encode()).hexdigest()[:8], 16) / float(0xffffffff)
    return round(lo + (hi - lo) * h * 64) / 64.0


class World:
    pass


def has_sym(x):
    from symbt.sym import Sym, SymBool
    if isinstance(x, (Sym, SymBool)):
        return not (isinstance(x, Sym) and x.is_concrete())
    if isinstance(x, dict):
        return any(has_sym(v) for v in x.values())
    if isinstance(x, (pd.Series, pd.DataFrame)):
        if isinstance(x, pd.Series):
            return x.dtype == object and any(has_sym(v) for v in x.values)
        return any(x[c].dtype == object and any(has_sym(v) for v in x[c].values) for c in x.columns)
    if isinstance(x, (list, tuple)):
        return any(has_sym(v) for v in x)
    if isinstance(x, np.ndarray) and x.dtype == object:
        return any(has_sym(v) for v in x.ravel())
    return False


def build(run, cfg, future, B):
    """future(name, lo, hi) supplies the value of a cell dated after the cut"""
    A = B.algos
    C = B.core
    dts = DTS_I if cfg.get('intraday') else DTS_D
    cut = cfg['cut']
    w = World()
    w.dts, w.cut = dts, cut

    def cell(tag, i, c, past, lo, hi):
        if i <= cut:
            return past
        return future('%s_%d_%s' % (tag, i, c), lo, hi)

    def mkframe(tag, cols, pastfn, lo, hi, index=None, rows=None):
        idx = dts if index is None else index
        rr = list(range(len(dts))) if rows is None else rows
        return frame(run, idx, cols, lambda k, c: cell(tag, rr[k], c, pastfn(rr[k], c), lo, hi))
    cols = ['a', 'b', 'c']
    data = mkframe('p', cols, lambda i, c: G[c][i], 0.5, 1000)
    add = {}
    st = cfg['stack']
    d1, d2, d3 = pd.DateOffset(days=1), pd.DateOffset(days=2), pd.DateOffset(days=3)
    lag = pd.DateOffset(days=cfg.get('lag', 0))
    children = None
    if st == 'equal':
        algos = [A.RunDaily(), A.SelectAll(), A.WeighEqually(), A.Rebalance()]
    elif st == 'momentum':
        algos = [A.RunDaily(), A.SelectAll(), A.SelectMomentum(2, lookback=d2, lag=lag), A.WeighEqually(), A.Rebalance()]
    elif st == 'hasdata_invvol':
        algos = [A.RunDaily(), A.SelectHasData(lookback=d3, min_count=2), A.WeighInvVol(lookback=d3, lag=lag), A.LimitWeights(0.75), A.Rebalance()]
    elif st == 'erc_meanvar':
        algos = [A.RunDaily(), A.SelectThese(['a', 'b']), A.WeighERC(lookback=d3, lag=lag, covar_method='standard'), A.Rebalance(),
                 A.WeighMeanVar(lookback=d3, lag=lag, covar_method='standard'), A.Rebalance()]
    elif st in ('setstat_dense', 'setstat_sparse'):
        rows = list(range(len(dts))) if st == 'setstat_dense' else [0, 4, 5]
        add['stat'] = mkframe('stat', cols, lambda i, c: {'a': 1.0, 'b': 2.0, 'c': 3.0}[c] * (1 + i % 2), -5, 5, index=dts[rows], rows=rows)
        add['tw'] = mkframe('tw', ['a', 'b'], lambda i, c: 0.25 + 0.125 * ((i + (c == 'b')) % 3), 0, 1)
        algos = [A.RunDaily(), A.SelectAll(), A.SetStat('stat', lag=lag), A.SelectN(2, filter_selected=True), A.WeighEqually(), A.LimitDeltas(0.25), A.Rebalance()]
    elif st == 'weightarget_where':
        add['tw'] = mkframe('tw', ['a', 'b'], lambda i, c: 0.25 + 0.125 * ((i + (c == 'b')) % 3), 0, 0.5)
        algos = [A.RunDaily(), A.WeighTarget('tw'), A.RebalanceOverTime(2)]
    elif st == 'targetvol':
        algos = [A.RunDaily(), A.SelectThese(['a', 'b']), A.WeighSpecified(a=0.5, b=0.5), A.TargetVol(0.25, lookback=d3, lag=lag), A.Rebalance()]
    elif st == 'weekly_monthly':
        algos = [A.Or([A.RunWeekly(run_on_end_of_period=bool(cfg.get('eop', 0))), A.RunMonthly(run_on_end_of_period=bool(cfg.get('eop', 0)))]),
                 A.SelectAll(), A.StatTotalReturn(lookback=d2, lag=lag), A.SelectN(1), A.WeighEqually(), A.Rebalance()]
    elif st == 'risk_hedge':
        ur = {'r1': mkframe('ur1', cols, lambda i, c: {'a': 1.0, 'b': 2.0, 'c': 3.0}[c] + 0.25 * i, -5, 5),
              'r2': mkframe('ur2', cols, lambda i, c: {'a': 0.5, 'b': -1.0, 'c': 1.5}[c] + 0.125 * i, -5, 5)}
        add['unit_risk'] = ur
        # hold a, then hedge its first risk measure with b: the hedge notionals depend on the unit-risk rows of the current date only
        algos = [A.RunDaily(), A.SelectThese(['a']), A.WeighSpecified(a=0.5), A.Rebalance(), A.UpdateRisk('r1', history=1), A.UpdateRisk('r2', history=1),
                 A.SelectThese(['b']), A.HedgeRisks(['r1']), A.UpdateRisk('r1', history=1), A.UpdateRisk('r2', history=1)]
    elif st == 'risk_hedge_gap':
        # unit risks are not published for the hedge instrument (nor, on the cut date, for the held one) around the cut: the gap must not be bridged
        # with later values
        nanv = float('nan')
        ur = {'r1': mkframe('ur1', cols, lambda i, c: nanv if ((c == 'b' and i in (cut - 1, cut)) or (c == 'a' and i == cut and cfg.get('lag', 0))) else {'a': 1.0, 'b': 2.0, 'c': 3.0}[c] + 0.25 * i, -5, 5)}
        add['unit_risk'] = ur
        algos = [A.RunDaily(), A.SelectThese(['a']), A.WeighSpecified(a=0.5), A.Rebalance(), A.UpdateRisk('r1', history=1),
                 A.SelectThese(['b']), A.HedgeRisks(['r1'], throw_nan=False), A.UpdateRisk('r1', history=1)]
    elif st == 'nested':
        sub = B.Strategy('sub', [A.RunDaily(), A.SelectAll(), A.SelectMomentum(1, lookback=d2, lag=lag), A.WeighEqually(), A.Rebalance()], ['a', 'b'])
        children = [sub, 'c']
        algos = [A.RunDaily(), A.SelectAll(), A.WeighEqually(), A.Rebalance()]
    elif st == 'nested_explicit':
        # explicit Security children, one of them not priced yet on the first dates (late listing): pushing capital through the sub-strategy
        # must not touch it (zero allocation at a missing price is a no-op)
        sub = B.Strategy('sub', [A.RunDaily(), A.SelectAll(), A.WeighEqually(), A.Rebalance()], [C.Security('a'), C.Security('c')])
        children = [sub, C.Security('b')]
        algos = [A.RunDaily(), A.WeighSpecified(sub=0.625, b=0.25), A.Rebalance()]
    elif st == 'fixedincome':
        add['coupons'] = mkframe('cpn', ['a'], lambda i, c: 0.25 + 0.125 * (i % 2), -5, 5)
        nvals = [cell('notl', i, 'n', 1000.0 + 100 * i, 500, 5000) for i in range(len(dts))]
        add['notl'] = pd.Series(nvals, index=dts, dtype=object if run.mode == 'sym' else float)
        children = [C.CouponPayingSecurity('a'), C.FixedIncomeSecurity('b'), C.HedgeSecurity('c')]
        algos = [A.RunDaily(), A.SelectThese(['a', 'b']), A.WeighSpecified(a=0.5, b=0.5), A.SetNotional('notl'), A.Rebalance()]
    else:
        raise ValueError(st)
    if cfg.get('bidoffer'):
        add['bidoffer'] = mkframe('bo', cols, lambda i, c: 0.25, 0, 1)
    w.algos, w.children, w.data, w.add, w.st = algos, children, data, add, st
    return w


def run_one(run, cfg, future, B, sym):
    """one backtest up to the cut; returns (history dict, leaks list)"""
    A = B.algos
    w = build(run, cfg, future, B)
    dts, cut = w.dts, w.cut
    tcut = dts[cut]
    leaks = []

    class StopAfter(B.Algo):
        def __call__(self, target):
            if target.now > tcut:
                raise Cut()
            return True

    class Spy(B.Algo):
        """after every algo: nothing handed on while now <= t may mention a future cell"""
        def __init__(self, inner):
            super().__init__()
            self.inner = inner
            if hasattr(inner, 'run_always'):
                self.run_always = inner.run_always

        def __call__(self, target):
            r = self.inner(target)
            if sym and target.now <= tcut:
                for k in ('selected', 'stat', 'weights', 'notional_value', 'cash'):
                    if k in target.temp and has_sym(target.temp[k]):
                        leaks.append('temp[%s] after %s on %s mentions a future cell' % (k, type(self.inner).__name__, target.now))
                if hasattr(target, 'risk') and has_sym(target.risk):
                    leaks.append('node.risk after %s on %s mentions a future cell' % (type(self.inner).__name__, target.now))
            return r
    algos = [StopAfter()] + [Spy(a) for a in w.algos]
    if cfg['stack'] == 'fixedincome':
        s = B.core.FixedIncomeStrategy('s', algos, w.children)
    else:
        s = B.Strategy('s', algos, w.children)
    t = B.Backtest(s, w.data, integer_positions=bool(cfg.get('int', 0)), additional_data=w.add or None,
                   commissions=(lambda q, p: 0.001953125 * abs(q) * p) if cfg.get('fee') else None)
    ctx = None
    if sym:
        from symbt.sym import Ctx
        ctx = Ctx.cur
        ctx.log_decisions = True
        ctx.clock_fn = lambda: t.strategy.now
        ctx.decision_log = []
    try:
        t.run()
    except Cut:
        pass
    except BaseException as e:
        # anything that stops the run after the clock has passed the cut (non-linear arithmetic on future prices, a sub-strategy trading at t+1)
        # is equivalent to the cut itself; before the cut it is passed on
        if (isinstance(e, Exception) or type(e).__name__ in ('Unsupported', 'BoundExceeded')) and t.strategy.now != 0 and t.strategy.now > tcut:
            pass
        else:
            raise
    finally:
        if ctx is not None:
            ctx.log_decisions = False
    hist = {}
    st = t.strategy
    for m in st.members:
        for nm in ('_prices', '_values', '_positions', '_cash', '_fees', '_outlays', '_notl_values', '_all_flows', '_coupon_income', '_holding_costs', '_bidoffers_paid'):
            ser = getattr(m, nm, None)
            if ser is None or not hasattr(ser, 'index'):
                continue
            for d in ser.index:
                if d <= tcut:
                    hist['%s.%s@%s' % (m.full_name, nm, d)] = ser[d]
        if hasattr(m, 'risks'):
            for col in m.risks.columns:
                for d in m.risks.index:
                    if d <= tcut:
                        hist['%s.risk[%s]@%s' % (m.full_name, col, d)] = m.risks[col][d]
    if sym:
        for (depth, clock, cond) in ctx.decision_log:
            if clock is not None and clock != 0 and clock <= tcut:
                leaks.append('branch decision on a future cell while now=%s: %s' % (clock, str(cond)[:120]))
    return hist, leaks


def h_lookahead(run, cfg):
    B = bt()
    guards = install_kernel_guards(B, run)
    try:
        if run.mode == 'sym':
            try:
                hist, leaks = run_one(run, cfg, lambda name, lo, hi: run.real(name, lo, hi), B, True)
            except Leak as lk:
                run.fail('no-look-ahead', lk.what)
            except Exception as e:
                run.note('raised', repr(e)[:160])
                run.end('raised')
            except BaseException as e:
                # bt turned a future cell into a machine float before the cut (e.g. a whole-column astype(float)): not expressible symbolically and not
                # a leak by itself - this path's verdict is the two-futures comparison of the concrete replay
                if type(e).__name__ == 'Unsupported' and 'float() of a symbolic real' in str(e):
                    run.end('deferred-to-concrete')
                raise
            if leaks:
                run.fail('no-look-ahead', leaks[0])
            for k, v in hist.items():
                if has_sym(v):
                    run.fail('no-look-ahead', 'recorded %s depends on future data: %r' % (k, v))
            run.check(True, 'no-look-ahead')
        else:
            def fut_model(name, lo, hi):
                return run.real(name, lo, hi)
            try:
                h0, _ = run_one(run, cfg, fut_model, B, False)
            except Exception as e:
                h0 = {'__exc__': repr(e)[:80]}
            for k in range(4):
                try:
                    hk, _ = run_one(run, cfg, lambda name, lo, hi: alt_value(name, k, lo, hi), B, False)
                except Exception as e:
                    hk = {'__exc__': repr(e)[:80]}
                if set(h0) != set(hk):
                    run.fail('no-look-ahead', 'history keys differ between two futures')
                for key in h0:
                    a, b = h0[key], hk[key]
                    same = (a == b) or (isinstance(a, float) and isinstance(b, float) and a != a and b != b)
                    if not same:
                        run.fail('no-look-ahead', '%s differs between two futures: %r vs %r' % (key, a, b))
            run.check(True, 'no-look-ahead')
    finally:
        guards['undo']()


def install_kernel_guards(B, run):
    """numeric kernels (ffn optimisers, covariance) are environment: they must be fed concrete windows; in symbolic mode a future cell reaching
    them raises Leak, concrete object-dtype windows are converted to float for the real routine"""
    real_ffn = B.algos.bt.ffn if hasattr(B.algos, 'bt') else B.ffn
    state = {'t': None}

    def guard(fn):
        def g(x, *a, **k):
            if run.mode == 'sym' and has_sym(x):
                raise Leak('numeric kernel %s received a future cell' % fn.__name__)
            if isinstance(x, (pd.DataFrame, pd.Series)):
                x = pd.DataFrame(x).astype(float) if isinstance(x, pd.DataFrame) else x.astype(float)
            return fn(x, *a, **k)
        return g

    def stub(name):
        # iterative optimisers are environment: a deterministic function of exactly the cells handed in (any change of the window changes it)
        def f(x, *a, **k):
            x = pd.DataFrame(x).astype(float)
            raw = 1.0 / (1.0 + x.abs().sum() + 0.5 * len(x) + (0.25 if name == 'calc_erc_weights' else 0.0))
            return raw / raw.sum()
        f.__name__ = name
        return f

    class FfnProxy:
        def __getattr__(self, k):
            v = getattr(real_ffn, k)
            if k == 'calc_inv_vol_weights':
                return guard(v)
            if k in ('calc_erc_weights', 'calc_mean_var_weights'):
                return guard(stub(k))
            return v
    old_ffn = B.ffn
    B.ffn = FfnProxy()
    old_cov = pd.DataFrame.cov

    def cov(self, *a, **k):
        if run.mode == 'sym' and has_sym(self):
            raise Leak('DataFrame.cov received a future cell')
        if any(dt == object for dt in self.dtypes):
            return old_cov(pd.DataFrame(self).astype(float), *a, **k)
        return old_cov(self, *a, **k)
    pd.DataFrame.cov = cov

    def undo():
        B.ffn = old_ffn
        pd.DataFrame.cov = old_cov
    return {'undo': undo, 'now': lambda: None, 'cut_ok': lambda: False}


HARNESSES = {'lookahead': h_lookahead}
WITNESS_CAP = {'quick': 80, 'thorough': 300}

STACKS = ['equal', 'momentum', 'hasdata_invvol', 'erc_meanvar', 'setstat_dense', 'setstat_sparse', 'weightarget_where', 'targetvol', 'weekly_monthly',
          'risk_hedge', 'risk_hedge_gap', 'nested', 'nested_explicit', 'fixedincome']


def plan(tier):
    quick = tier == 'quick'
    opts = dict(max_paths=400, timeout_ms=5000, max_seconds=240 if quick else 1200)
    tasks = []
    for st in STACKS:
        for cut in (1, 2, 3, 4):
            lags = (0, 1) if st in ('momentum', 'hasdata_invvol', 'setstat_dense', 'setstat_sparse', 'weekly_monthly', 'nested', 'targetvol', 'erc_meanvar', 'risk_hedge_gap') else (0,)
            for lag in lags:
                cfg = dict(stack=st, cut=cut, lag=lag, int=0)
                tasks.append(dict(harness='lookahead', cfg=cfg, opts=opts))
                if not quick or cut in (2, 3):
                    tasks.append(dict(harness='lookahead', cfg=dict(cfg, intraday=1), opts=opts))
                if True:
                    if st in ('equal', 'momentum', 'nested'):
                        tasks.append(dict(harness='lookahead', cfg=dict(cfg, bidoffer=1, fee=1), opts=opts))
                    if st == 'weekly_monthly':
                        tasks.append(dict(harness='lookahead', cfg=dict(cfg, eop=1), opts=opts))
    return tasks
