"""C16 - bankruptcy is detected, clean and terminal.

The real Backtest.run is executed with a spy algo; prices on the dates after the (concrete) first trading date are symbolic, so the
positions taken on the first date are constants and every later value is linear in the symbolic prices.  Bankruptcy on any date, or
on none, is the solver's choice.  Two one-sided implications keep bt's 1e-16 band out of the verdict."""
from harness.common import EPS_MONEY, bt, dates, frame

BOUNDS = {
    'quick': 'flat tree (leveraged long/short targets from a grid), nested tree root->[sub(a,b), c] with a long/short sub-strategy, a root holding a '
             'coupon-paying security (symbolic coupons), a fixed-income root, a flat tree under a flat commission whose capital is withdrawn by an algo (symbolic amount; the negative value is first seen by the end-of-date refresh); 4 dates, first-date prices concrete, all later prices symbolic in '
             '[0.5, 1000]; fractional positions; initial capital 100000',
    'thorough': '5 dates, more target vectors, whole-unit positions, commissions',
}
ASSUMPTIONS = ['runs that hit bt\'s documented zero-base ZeroDivisionError (value exactly 0 then non-zero) end the path (C10 ill-formed class)']

P0 = {'a': 100.0, 'b': 50.0, 'c': 20.0}


SYMONLY = [None]
LATER = {'a': [100.0, 104.0, 97.0, 101.0, 99.0], 'b': [50.0, 48.0, 52.0, 51.0, 49.0], 'c': [20.0, 21.0, 19.0, 22.0, 20.5]}


def mkdata(run, cols, nd):
    dts = dates(nd)
    so = SYMONLY[0]
    return dts, frame(run, dts, cols, lambda i, c: P0[c] if i == 0 else (run.real('p%d%s' % (i, c), 0.5, 1000) if (so is None or c in so) else LATER[c][i]))


class SpyBase:
    pass


def h_bankrupt(run, cfg):
    B = bt()
    A = B.algos
    nd = cfg.get('ndates', 4)
    shape = cfg['shape']
    SYMONLY[0] = cfg.get('symonly')
    calls = []

    subcalls = []

    class Spy(B.Algo):
        def __call__(self, target):
            if target is real.get('root'):
                calls.append(target.now)
            elif real.get('root') is not None and target is real['root'].children.get('sub'):
                subcalls.append(target.now)          # the real sub-strategy (its shadow copy is a different object)
            return True
    real = {}
    kw = {}
    if shape == 'flat':
        cols = list(cfg['w'].keys())
        dts, data = mkdata(run, cols, nd)
        s = B.Strategy('s', [Spy(), A.RunOnce(), A.SelectAll(), A.WeighSpecified(**cfg['w']), A.Rebalance()])
    elif shape == 'flat_drain':
        # capital is withdrawn by an algo, so the negative value is first seen by the end-of-date refresh of a date that is already open
        cols = list(cfg['w'].keys())
        dts, data = mkdata(run, cols, nd)
        kdrain = cfg.get('drain_on', 2)
        x = run.real('drain', 0, 300000)

        class Drain(B.Algo):
            def __call__(self, target):
                if target.now == dts[kdrain]:
                    target.adjust(-x)
                return True
        s = B.Strategy('s', [Spy(), Drain(), A.RunOnce(), A.SelectAll(), A.WeighSpecified(**cfg['w']), A.Rebalance()])
    elif shape == 'nested':
        cols = ['a', 'b', 'c']
        dts, data = mkdata(run, cols, nd)
        sub = B.Strategy('sub', [A.RunDaily(), A.RunOnce(), A.SelectAll(), A.WeighSpecified(**cfg['wsub']), A.Rebalance()], ['a', 'b'])
        s = B.Strategy('s', [Spy(), A.RunOnce(), A.WeighSpecified(**cfg['w']), A.Rebalance()], [sub, 'c'])
    elif shape == 'coupon':
        cols = ['a', 'b']
        dts, data = mkdata(run, cols, nd)
        cp = B.core.CouponPayingSecurity('a')
        s = B.Strategy('s', [Spy(), A.RunOnce(), A.SelectAll(), A.WeighSpecified(**cfg['w']), A.Rebalance()], [cp, 'b'])
        kw['coupons'] = frame(run, dts, ['a'], lambda i, c: run.real('cpn%d' % i, -5, 5))
        kw['cost_long'] = frame(run, dts, ['a'], lambda i, c: 0.125)
        kw['cost_short'] = frame(run, dts, ['a'], lambda i, c: 0.25)
    elif shape == 'hedge':
        cols = ['a', 'b']
        dts, data = mkdata(run, cols, nd)
        s = B.Strategy('s', [Spy(), A.RunOnce(), A.SelectAll(), A.WeighSpecified(**cfg['w']), A.Rebalance()], [B.core.HedgeSecurity('a'), B.core.Security('b')])
    elif shape == 'nested_daily':
        cols = ['a', 'b', 'c']
        dts, data = mkdata(run, cols, nd)
        sub = B.Strategy('sub', [Spy(), A.RunDaily(), A.SelectAll(), A.WeighSpecified(**cfg['wsub']), A.Rebalance()], ['a', 'b'])
        s = B.Strategy('s', [Spy(), A.RunOnce(), A.WeighSpecified(**cfg['w']), A.Rebalance()], [sub, 'c'])
    elif shape == 'fi':
        cols = ['a', 'b']
        dts, data = mkdata(run, cols, nd)
        s = B.core.FixedIncomeStrategy('s', [Spy(), A.RunOnce(), A.SelectAll(), A.WeighSpecified(**cfg['w']), A.SetNotional('notl'), A.Rebalance()])
        import pandas as pd
        kw['notl'] = pd.Series([1000.0] * nd, index=dts)
    else:
        raise ValueError(shape)
    t = B.Backtest(s, data, initial_capital=100000.0, integer_positions=bool(cfg.get('int', 0)), additional_data=kw or None,
                   commissions=(lambda q, p: 0.5) if cfg.get('flatfee') else None)
    real['root'] = t.strategy
    flagdates = []
    _orig_flatten = t.strategy.flatten

    def _flatten_spy():
        # the date on which bt declares the bankruptcy (flatten is what the root's update calls then)
        if not flagdates:
            flagdates.append(t.strategy.now)
        return _orig_flatten()
    t.strategy.flatten = _flatten_spy
    try:
        t.run()
    except ZeroDivisionError:
        run.end('zero-base')
    except Exception as e:
        run.fail('bankruptcy-run-completes', repr(e))
    st = t.strategy
    V = st.values
    idx = list(V.index)
    n = len(idx)
    first = None
    if st.bankrupt and flagdates and flagdates[0] in idx:
        first = idx.index(flagdates[0])
    C = B.core
    for m in st.members:
        if m is not st and isinstance(m, C.StrategyBase):
            run.check(not m.bankrupt, 'substrategy-never-flagged', m.full_name)
    if shape == 'fi':
        run.check(not st.bankrupt, 'fixed-income-never-flagged')
        return
    if st.bankrupt:
        # flagged => the value recorded on the flag date is negative (one-sided, with slack for bt's own tolerances)
        run.check(first is not None, 'flag-date-known', 'flagged but the liquidation was never called')
        run.check_le(V.iloc[first], 0.0, EPS_MONEY, 'flag-implies-negative-value', 'value on the flag date %s' % idx[first])
    else:
        # never flagged => no date with value clearly below zero
        for i in range(n):
            run.check_le(0.0, V.iloc[i], EPS_MONEY, 'negative-value-implies-flag', 'value at %s' % idx[i])
        return
    tstar = idx[first]
    # (for triage) children whose pre-liquidation value is exactly zero on the bankruptcy date although they hold positions:
    # value before liquidation = cash carried from the previous date + positions carried from the previous date at this date's prices
    zero_nodes = []
    if first > 0:
        prev = idx[first - 1]
        for m in st.children.values():
            if isinstance(m, C.SecurityBase):
                held = m.positions[prev]
                pre = held * data[m.name][tstar] * m.multiplier if m.name in data.columns else 0.0
                if bool(held != 0) and bool(pre == 0):
                    zero_nodes.append(m.name)
            else:
                pre = m.cash[prev]
                held_any = False
                for sec in m.members:
                    if isinstance(sec, C.SecurityBase):
                        h = sec.positions[prev]
                        if bool(h != 0):
                            held_any = True
                        pre = pre + h * data[sec.name][tstar] * sec.multiplier
                if held_any and bool(pre == 0):
                    zero_nodes.append(m.name)
    run.note('zero_value_children', zero_nodes)
    # clean: every position in the whole tree is zero from the bankruptcy date on
    for m in st.members:
        if isinstance(m, C.SecurityBase):
            ps = m.positions
            for d in ps.index:
                if d >= tstar:
                    run.check_near(ps[d], 0.0, 1e-9, 'positions-closed-after-bankruptcy', '%s @%s top=%s' % (m.full_name, d, m.full_name.split('>')[1]))
    # terminal: algos not run after that date; value and cash constant
    late = [c for c in calls if c > tstar]
    run.check(not late, 'algos-not-run-after-bankruptcy', str(late))
    sublate = [c for c in subcalls if c > tstar]
    run.check(not sublate, 'substrategy-algos-not-run-after-bankruptcy', str(sublate))
    cash = st.cash
    for i in range(first + 1, n):
        run.check_near(V.iloc[i], V.iloc[first], EPS_MONEY, 'value-constant-after-bankruptcy', str(idx[i]))
        run.check_near(cash.iloc[i], cash.iloc[first], EPS_MONEY, 'cash-constant-after-bankruptcy', str(idx[i]))
    # values before the flag date were not negative beyond tolerance
    for i in range(first):
        run.check_le(0.0, V.iloc[i], EPS_MONEY, 'flagged-on-first-negative-date', str(idx[i]))


HARNESSES = {'bankrupt': h_bankrupt}
DECIMAL_REPLAYS = {'quick': 4, 'thorough': 8}      # liquidation arithmetic on two-decimal prices (models are dyadic)


def plan(tier):
    quick = tier == 'quick'
    nd = 4 if quick else 5
    tasks = []
    opts = dict(max_paths=5000, timeout_ms=10000)
    flats = [dict(a=2.0, b=-1.5), dict(a=-1.0, b=0.5), dict(a=1.5)] + ([] if quick else [dict(a=3.0, b=-2.5), dict(a=-0.75, b=-0.5), dict(a=0.5, b=0.25)])
    for w in flats:
        tasks.append(dict(harness='bankrupt', cfg=dict(shape='flat', w=w, ndates=nd), opts=opts))
    for w, so in ((dict(a=2.0, b=-1.5), None), (dict(a=0.75, b=0.25), ['a'])):
        tasks.append(dict(harness='bankrupt', cfg=dict(shape='flat', w=w, ndates=nd, flatfee=1, symonly=so), opts=opts))
        for k in (1, 2):
            tasks.append(dict(harness='bankrupt', cfg=dict(shape='flat_drain', w=w, ndates=nd, flatfee=1, drain_on=k, symonly=so or ['a']), opts=opts))
    nests = [dict(w=dict(sub=1.5, c=-1.0), wsub=dict(a=2.0, b=-1.5)), dict(w=dict(sub=0.625, c=0.375), wsub=dict(a=2.0, b=-1.5))]
    if not quick:
        nests.append(dict(w=dict(sub=-0.5, c=1.25), wsub=dict(a=0.5, b=0.5)))
    for c in nests:
        tasks.append(dict(harness='bankrupt', cfg=dict(shape='nested', ndates=nd, **c), opts=opts))
    for w in [dict(a=2.0, b=-1.5), dict(a=-1.5, b=1.0)]:
        tasks.append(dict(harness='bankrupt', cfg=dict(shape='coupon', w=w, ndates=nd), opts=opts))
    tasks.append(dict(harness='bankrupt', cfg=dict(shape='fi', w=dict(a=2.0, b=-1.5), ndates=nd), opts=opts))
    for w in (dict(a=-1.5, b=2.0), dict(a=2.0, b=-1.5)):
        tasks.append(dict(harness='bankrupt', cfg=dict(shape='hedge', w=w, ndates=nd), opts=opts))
    tasks.append(dict(harness='bankrupt', cfg=dict(shape='nested_daily', w=dict(sub=1.5, c=-1.0), wsub=dict(a=0.75, b=0.25), ndates=nd, flatfee=1, symonly='c'), opts=opts))
    tasks.append(dict(harness='bankrupt', cfg=dict(shape='nested_daily', w=dict(sub=0.5, c=-1.25), wsub=dict(a=0.5, b=0.5), ndates=nd, flatfee=0, symonly='c'), opts=opts))
    if not quick:
        tasks.append(dict(harness='bankrupt', cfg=dict(shape='flat', w=dict(a=2.0, b=-1.5), ndates=4, int=1), opts=opts))
    return tasks
