"""Helpers shared by the harnesses.  Everything here must work in both modes (symbolic Sym / plain float)."""
import numpy as np
import pandas as pd

from symbt.loader import load_bt

EPS_MONEY = 1e-6
EPS_W = 1e-9
NAN = float('nan')


def bt():
    return load_bt()


def dates(n, start='2010-01-04', freq='D'):
    return pd.date_range(start, periods=n, freq=freq)


def frame(run, index, columns, fn):
    """DataFrame with cell (i, col) = fn(i, col).  Object dtype (ObjFrame) in symbolic mode, float64 otherwise."""
    if run.mode == 'sym':
        from symbt.shims import obj_frame
        df = obj_frame(index, columns)
        for i in range(len(index)):
            for j, c in enumerate(columns):
                df.iat[i, j] = fn(i, c)
        return df
    return pd.DataFrame([[float(fn(i, c)) for c in columns] for i in range(len(index))], index=index, columns=list(columns), dtype=float)


def fee_fn(kind, par):
    """Parametric commission families (non-decreasing in |q|)."""
    if kind == 'none':
        return None
    if kind == 'fixed':
        c = par
        return lambda q, p: c
    if kind == 'pershare':
        a = par
        return lambda q, p: a * abs(q)
    if kind == 'prop':
        b = par
        return lambda q, p: b * abs(q) * p
    if kind == 'maxfixed':
        c, a = par
        return lambda q, p: max(c, a * abs(q))
    raise ValueError(kind)


def fee_val(kind, par, q, p):
    f = fee_fn(kind, par)
    return 0.0 if f is None else f(q, p)


def members(node):
    return node.members


def is_sec(n):
    return isinstance(n, bt().core.SecurityBase)


def safe_abs(x):
    return abs(x)


def nan_or(v):
    return isinstance(v, float) and v != v
