"""C18 - reports agree with the node histories they summarise.

After symbolic backtests (real Backtest.run; symbolic initial capital and/or later prices) the real report accessors are called and every
cell is proved equal to the harness's own recomputation from the node histories: weights, security_weights, positions, herfindahl_index,
turnover, get_transactions, Result-level prices; replaying the transaction list through ReplayTransactions reproduces positions and values."""
import pandas as pd

from harness.common import EPS_MONEY, EPS_W, bt, dates, frame

BOUNDS = {
    'quick': 'flat tree; nested tree with a ticker shared by two sub-strategies; short targets; run with no trades; fixed-income root with a short; bid/offer '
             'on/off; 4 dates on a grid, initial capital symbolic, fractional positions (whole-unit with concrete capital); replay round-trip on the flat tree',
    'thorough': 'adds symbolic last-date prices',
}
ASSUMPTIONS = ['ffn.GroupStats (performance statistics, plotting) is not part of the property: Result-level checks use the strategy price series the Result wraps']
PR = {'a': [100.0, 105.0, 95.0, 101.5], 'b': [37.5, 33.0, 41.25, 40.0], 'c': [10.0, 11.0, 12.5, 9.75]}
SPREAD = {'a': 0.5, 'b': 0.25, 'c': 0.125}
EPS_P = 1e-7


def isnan(v):
    return isinstance(v, float) and v != v


def mk(run, cfg):
    B = bt()
    A = B.algos
    C = B.core
    dts = dates(4)
    cols = ['a', 'b', 'c']

    def px(i, c):
        if cfg.get('symlast') and i == 3:
            return run.real('p3' + c, 1, 300)
        return PR[c][i]
    data = frame(run, dts, cols, px)
    shape = cfg['shape']
    add = {}
    if cfg.get('spread'):
        add['bidoffer'] = frame(run, dts, cols, lambda i, c: SPREAD[c])
    if shape == 'flat':
        s = B.Strategy('s', [A.RunDaily(), A.SelectAll(), A.WeighSpecified(**cfg['w']), A.Rebalance()])
    elif shape == 'closeearly':
        # ticker b is held by both sub-strategies; one of them drops it on the second date and stays idle in it afterwards
        tw1 = pd.DataFrame({'a': [0.5, 0.5, 0.5, 0.5], 'b': [0.5, 0.0, 0.0, 0.0]}, index=dts)
        k1 = B.Strategy('k1', [A.RunDaily(), A.WeighTarget(tw1), A.Rebalance()], ['a', 'b'])
        k2 = B.Strategy('k2', [A.RunDaily(), A.SelectThese(['b']), A.WeighSpecified(b=0.75), A.Rebalance()], ['b'])
        s = B.Strategy('s', [A.RunDaily(), A.WeighSpecified(k1=0.5, k2=0.375), A.Rebalance()], [k1, k2])
    elif shape == 'flat_closeearly':
        tw = pd.DataFrame({'a': [0.5, 0.5, 0.5, 0.5], 'b': [0.25, 0.0, 0.0, 0.0], 'c': [0.0, 0.0, 0.25, 0.0]}, index=dts)
        s = B.Strategy('s', [A.RunDaily(), A.WeighTarget(tw), A.Rebalance()])
    elif shape == 'notrades':
        s = B.Strategy('s', [A.RunDaily(), A.SelectAll()])
    elif shape == 'nested':
        k1 = B.Strategy('k1', [A.RunDaily(), A.SelectThese(['a', 'b']), A.WeighSpecified(a=0.5, b=0.5), A.Rebalance()], ['a', 'b'])
        k2 = B.Strategy('k2', [A.RunDaily(), A.SelectThese(['a']), A.WeighSpecified(a=0.75), A.Rebalance()], ['a'])
        class Peek(B.Algo):
            # a monitoring algo that looks at the reports while the run is in progress (as PTE_Rebalance does), before lazily created
            # securities exist
            def __call__(self, target):
                target.positions
                target.members
                target.securities
                return True
        s = B.Strategy('s', [Peek(), A.RunDaily(), A.WeighSpecified(k1=0.5, k2=0.25, c=0.125), A.Rebalance()], [k1, k2, 'c'])
    elif shape == 'nested_lazy':
        # sub-strategies without declared children: their securities are created on first allocation, after the root has been inspected
        class Peek2(B.Algo):
            def __call__(self, target):
                target.positions
                target.members
                return True
        k1 = B.Strategy('k1', [A.RunDaily(), A.SelectAll(), A.WeighEqually(), A.Rebalance()])
        k2 = B.Strategy('k2', [A.RunDaily(), A.SelectThese(['a']), A.WeighEqually(), A.Rebalance()])
        s = B.Strategy('s', [Peek2(), A.RunDaily(), A.WeighSpecified(k1=0.625, k2=0.25), A.Rebalance()], [k1, k2])
    elif shape == 'fi':
        add['coupons'] = frame(run, dts, ['a'], lambda i, c: 0.25)
        add['notl'] = pd.Series([1000.0, 1500.0, 500.0, 1000.0], index=dts)
        class Hedge(B.Algo):
            """keeps a position in the hedge security (notional zero by construction, market value not)"""
            def __call__(self, target):
                if target['c'].position == 0:
                    target.transact(-50.0, 'c')
                return True
        s = C.FixedIncomeStrategy('s', [A.RunDaily(), A.SelectThese(['a', 'b']), A.WeighSpecified(a=0.75, b=-0.25), A.SetNotional('notl'), A.Rebalance(), Hedge()],
                                  [C.CouponPayingSecurity('a'), C.CouponPayingSecurity('b'), C.HedgeSecurity('c')])
        add['coupons'] = frame(run, dts, ['a', 'b'], lambda i, c: 0.25)
    else:
        raise ValueError(shape)
    integer = bool(cfg.get('int', 0))
    cap = float(cfg.get('cap', 250000.0)) if integer or cfg.get('capgrid') else run.real('cap', 10 ** 4, 10 ** 7)
    t = B.Backtest(s, data, initial_capital=cap, integer_positions=integer, additional_data=add or None)
    try:
        t.run()
    except ZeroDivisionError:
        run.end('zero-base')
    if t.strategy.bankrupt:
        run.end('bankrupt')
    return B, t, data, dts


def h_reports(run, cfg):
    if cfg['shape'] == 'fi' and run.mode == 'sym':
        # pandas divides object-dtype cells with Python semantics (0.0/0.0 raises) where float64 frames give NaN: the fixed-income report
        # configuration has no symbolic input and is checked by its concrete replay on real float64 frames only
        run.check(True, 'deferred')
        run.end('deferred-to-concrete')
    B, t, data, dts = mk(run, cfg)
    C = B.core
    st = t.strategy
    fi = st.fixed_income
    idx = list(st.values.index)
    def walk(n):
        # the harness's own traversal of the tree (independent of Node.members / .securities)
        out = [n]
        for c in n.children.values():
            out += walk(c)
        return out
    members = walk(st)
    secs = [m for m in members if isinstance(m, C.SecurityBase)]
    run.check([m.full_name for m in st.members] == [m.full_name for m in members], 'members-list-is-the-tree', str([m.full_name for m in st.members]))
    # ---- weights: each node's value (notional for fixed income) over the root's
    try:
        W = t.weights
        SW = t.security_weights
        POS = t.positions
        HHI = t.herfindahl_index
    except Exception as e:
        run.fail('reports-complete', repr(e))
    rootser = st.notional_values if fi else st.values
    for m in members:
        ser = m.notional_values if fi else m.values
        for d in idx:
            if d not in ser.index:
                continue
            den = rootser[d]
            if bool(abs(den) >= 1e-9):
                run.check_near(W[m.full_name][d] * den, ser[d], EPS_MONEY, 'weights=value-over-root', '%s @%s' % (m.full_name, d))
    names = sorted(set(m.name for m in secs))
    run.check(sorted(SW.columns) == names, 'security-weights-columns', '%s vs %s' % (list(SW.columns), names))
    for d in idx:
        den = rootser[d]
        if not bool(abs(den) >= 1e-9):
            continue
        tot = 0.0
        for n in names:
            agg = 0.0
            for m in secs:
                if m.name == n:
                    ser = m.notional_values if fi else m.values
                    if d in ser.index:
                        agg = agg + ser[d]
            got = SW[n][d]
            if isnan(got):
                run.check_near(agg, 0.0, EPS_MONEY, 'security-weights-aggregate-by-ticker', '%s @%s NaN' % (n, d))
            else:
                run.check_near(got * den, agg, EPS_MONEY, 'security-weights-aggregate-by-ticker', '%s @%s' % (n, d))
            tot = tot + agg
        if not fi:
            cash = 0.0
            for m in members:
                if isinstance(m, C.StrategyBase):
                    cash = cash + m.cash[d]
            run.check_near(tot + cash, den, EPS_MONEY, 'security-weights-plus-cash-sum-to-one', str(d))
        # Herfindahl = sum of squared security weights
        h = 0.0
        for n in names:
            v = SW[n][d]
            if not isnan(v):
                h = h + v * v
        run.check_near(HHI[d], h, EPS_W * 100, 'herfindahl-formula', str(d))
    # ---- positions aggregate per ticker
    run.check(sorted(POS.columns) == names, 'positions-columns', str(list(POS.columns)))
    for d in idx:
        for n in names:
            agg = 0.0
            for m in secs:
                if m.name == n and d in m.positions.index:
                    agg = agg + m.positions[d]
            got = POS[n][d]
            if not isnan(got):
                run.check_near(got, agg, 1e-9, 'positions-aggregate-by-ticker', '%s @%s' % (n, d))
    # ---- Result wraps the strategy index
    run.check(t._original_prices is not None, 'result-prices-are-strategy-index')
    for d in idx:
        run.check_near(t._original_prices[d], st.prices[d], EPS_P, 'result-prices-are-strategy-index', str(d))
    # ---- turnover: min(positive outlays, |negative outlays|) / nav
    try:
        TO = t.turnover
    except Exception as e:
        run.fail('reports-complete', 'turnover: %r' % (e,))
    for d in idx:
        pos_o, neg_o = 0.0, 0.0
        for n in names:
            o = 0.0
            for m in secs:
                if m.name == n and d in m.outlays.index:
                    o = o + m.outlays[d]
            if bool(o >= 0):
                pos_o = pos_o + o
            else:
                neg_o = neg_o - o
        mn = pos_o if bool(pos_o <= neg_o) else neg_o
        nav = st.values[d]
        if isnan(TO[d]) and not secs:
            continue            # a run that never created a security has an empty outlay table (turnover undefined)
        if bool(abs(nav) >= 1e-9):
            run.check_near(TO[d] * nav, mn, EPS_MONEY, 'turnover-formula', str(d))
    # ---- transactions: quantities cumulate to positions, prices are execution prices (spread included)
    try:
        TX = st.get_transactions()
    except Exception as e:
        run.fail('transactions-report-completes', repr(e))
    spread_on = bool(cfg.get('spread'))
    for n in names:
        cum = 0.0
        for d in idx:
            key = (d, n)
            if key in TX.index:
                q = TX.loc[key, 'quantity']
                cum = cum + q
                if d in data.index and not spread_on:
                    run.check_near(TX.loc[key, 'price'], data[n][d], EPS_P, 'transaction-price-is-execution-price', '%s @%s' % (n, d))
                elif d in data.index:
                    # execution price = market price + bid/offer paid per unit traded
                    run.check_near((TX.loc[key, 'price'] - data[n][d]) * q, sum(m.bidoffers_paid[d] for m in secs if m.name == n), EPS_MONEY,
                                   'transaction-price-includes-spread', '%s @%s' % (n, d))
            agg = 0.0
            for m in secs:
                if m.name == n and d in m.positions.index:
                    agg = agg + m.positions[d]
            run.check_near(cum, agg, 1e-9, 'transactions-cumulate-to-positions', '%s @%s' % (n, d))


def h_replay(run, cfg):
    """replaying a run's transaction list through ReplayTransactions reproduces its positions and values"""
    B, t, data, dts = mk(run, dict(cfg, capgrid=1))
    A = B.algos
    st = t.strategy
    tx = st.get_transactions()
    s2 = B.Strategy('replay', [A.ReplayTransactions('tx')], [B.core.Security(n) for n in ('a', 'b', 'c')])
    add = {'tx': tx, 'bidoffer': frame(run, dts, ['a', 'b', 'c'], lambda i, c: SPREAD[c] if cfg.get('spread') else 0.0)}
    t2 = B.Backtest(s2, data, initial_capital=float(cfg.get('cap', 250000.0)), integer_positions=False, additional_data=add)
    t2.run()
    P1, P2 = t.positions, t2.positions
    for d in P1.index:
        for n in P1.columns:
            v2 = P2[n][d] if n in P2.columns else 0.0
            run.check_near(v2, P1[n][d], 1e-9, 'replay-reproduces-positions', '%s @%s' % (n, d))
        run.check_near(t2.strategy.values[d], st.values[d], EPS_MONEY, 'replay-reproduces-values', str(d))


def h_replay_blotter(run, cfg):
    """a blotter with arbitrary execution prices (one of them exactly 0.0) replayed through ReplayTransactions: positions are the cumulated
    quantities and cash is initial capital minus sum of q * execution price * multiplier"""
    B = bt()
    A = B.algos
    C = B.core
    dts = dates(4)
    data = frame(run, dts, ['a', 'b'], lambda i, c: PR[c][i])
    q1 = run.real('q1', 1, 500)
    q2 = run.real('q2', 1, 500)
    rows = [(dts[0], 'a', q1, 99.5), (dts[1], 'b', q2, 0.0), (dts[1], 'a', -0.5 * q1 if run.mode == 'conc' else q1 * -0.5, 106.0), (dts[3], 'b', 7.0, 40.5)]
    idx = pd.MultiIndex.from_tuples([(r[0], r[1]) for r in rows], names=['Date', 'Security'])
    tx = pd.DataFrame({'quantity': [r[2] for r in rows], 'price': [r[3] for r in rows]}, index=idx)
    if run.mode == 'sym':
        tx = tx.astype(object)
    mult = {'a': 1.0, 'b': 10.0}
    s2 = B.Strategy('replay', [A.ReplayTransactions('tx')], [C.Security('a'), C.Security('b', multiplier=10.0)])
    add = {'tx': tx, 'bidoffer': frame(run, dts, ['a', 'b'], lambda i, c: 0.0)}
    cap = 10 ** 6
    t2 = B.Backtest(s2, data, initial_capital=float(cap), integer_positions=False, additional_data=add)
    t2.run()
    st = t2.strategy
    for i, d in enumerate(dts):
        exp_pos = {'a': 0.0, 'b': 0.0}
        cash = float(cap)
        for (dd, n, q, px) in rows:
            if dd <= d:
                exp_pos[n] = exp_pos[n] + q
                cash = cash - q * px * mult[n]
        for n in ('a', 'b'):
            run.check_near(st[n].positions[d], exp_pos[n], 1e-9, 'replay-reproduces-positions', '%s @%s' % (n, d))
        run.check_near(st.cash[d], cash, EPS_MONEY, 'replay-books-execution-prices', str(d))
        run.check_near(st.values[d], cash + exp_pos['a'] * PR['a'][i] + exp_pos['b'] * PR['b'][i] * 10.0, EPS_MONEY, 'replay-reproduces-values', str(d))


HARNESSES = {'reports': h_reports, 'replay': h_replay, 'replay_blotter': h_replay_blotter}
WITNESS_CAP = {'quick': 60, 'thorough': 200}


def plan(tier):
    quick = tier == 'quick'
    opts = dict(max_paths=3000, timeout_ms=10000)
    tasks = []
    for w in (dict(a=0.625, b=0.25), dict(a=0.5, b=-0.25, c=0.5), dict(c=1.0)):
        for spread in (0, 1):
            tasks.append(dict(harness='reports', cfg=dict(shape='flat', w=w, spread=spread), opts=opts))
    tasks.append(dict(harness='reports', cfg=dict(shape='flat', w=dict(a=0.625, b=0.25), spread=1, int=1, cap=250000.0), opts=opts))
    tasks.append(dict(harness='reports', cfg=dict(shape='notrades', spread=0), opts=opts))
    tasks.append(dict(harness='reports', cfg=dict(shape='notrades', spread=1), opts=opts))
    for spread in (0, 1):
        tasks.append(dict(harness='reports', cfg=dict(shape='nested', spread=spread), opts=opts))
    for spread in (0, 1):
        tasks.append(dict(harness='reports', cfg=dict(shape='nested_lazy', spread=spread), opts=opts))
        tasks.append(dict(harness='reports', cfg=dict(shape='closeearly', spread=spread), opts=opts))
        tasks.append(dict(harness='reports', cfg=dict(shape='flat_closeearly', spread=spread), opts=opts))
    tasks.append(dict(harness='reports', cfg=dict(shape='fi', spread=0, capgrid=1, cap=0.0), opts=opts))
    if not quick:
        tasks.append(dict(harness='reports', cfg=dict(shape='flat', w=dict(a=0.625, b=0.25), spread=0, symlast=1, capgrid=1), opts=opts))
        tasks.append(dict(harness='reports', cfg=dict(shape='nested', spread=0, symlast=1, capgrid=1), opts=opts))
    for spread in (0, 1):
        tasks.append(dict(harness='replay', cfg=dict(shape='flat', w=dict(a=0.625, b=0.25), spread=spread), opts=opts))
        tasks.append(dict(harness='replay', cfg=dict(shape='flat', w=dict(a=0.5, b=-0.25, c=0.5), spread=spread), opts=opts))
    tasks.append(dict(harness='replay_blotter', cfg={}, opts=opts))
    return tasks
