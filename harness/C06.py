"""C06 - Rebalance brings every child to its target weight, whatever the prior portfolio.

Real algos.Rebalance / RebalanceOverTime / StrategyBase.rebalance, close, allocate from an arbitrary prior portfolio (symbolic
positions and capital); targets and cash fraction from grids (long, short, summing to at most one)."""
from harness.common import EPS_MONEY, EPS_W, bt, dates, fee_fn, fee_val, frame

BOUNDS = {
    'quick': 'flat tree a,b,c (c not targeted: must be closed), 2 dates on a dyadic grid (4 dates with a two-date zero-price episode of c), prior positions and capital symbolic; 6 target vectors and the empty one x cash '
             'fraction {none, 0.25}; fractional+no cost => exact weights; fractional/whole-unit with 0.2% commission and bid/offer => within one unit + '
             'costs; nested tree with a sub-strategy target (concrete prior inside the sub-strategy, symbolic capital); RebalanceOverTime n in {2,3} '
             'with a new target vector arriving mid-way',
    'thorough': 'more target vectors, per-share fee, symbolic target weights (degree 2) on the 2-asset tree',
}
ASSUMPTIONS = ['value after the prior portfolio >= 1000 (non-degenerate base)', 'paths on which bt raises inside the sizing search end (C05 known findings)']

PR = {'a': [100.0, 105.0], 'b': [37.5, 33.0], 'c': [10.0, 12.5]}
MULT = {'a': 1.0, 'b': 10.0, 'c': 0.5}
SPREAD = {'a': 0.5, 'b': 0.25, 'c': 0.125}


PR_ZERO = {'a': [100.0, 104.0, 102.0, 105.0], 'b': [37.5, 35.0, 36.0, 33.0], 'c': [10.0, 0.0, 0.0, 12.5]}


def prices(cfg):
    """price grid of the configuration: the rebalance happens on its last date"""
    return PR_ZERO if cfg.get('pgrid') == 'zero' else PR


def mk(run, cfg):
    B = bt()
    P = prices(cfg)
    dts = dates(len(P['a']))
    cols = ['a', 'b', 'c']
    data = frame(run, dts, cols, lambda i, c: P[c][i])
    kids = [B.core.SecurityBase(n, multiplier=MULT[n] if cfg.get('mult', 1) else 1.0) for n in cols]
    s = B.Strategy('s', [], kids)
    integer = bool(cfg.get('int', 0))
    s.use_integer_positions(integer)
    f = fee_fn(*cfg['fee']) if cfg.get('fee') else None
    if f is not None:
        s.set_commissions(f)
    kw = {}
    if cfg.get('spread'):
        kw['bidoffer'] = frame(run, dts, cols, lambda i, c: SPREAD[c])
    s.setup(data, **kw)
    s.update(dts[0])
    s.adjust(run.integer('cap', 10 ** 5, 10 ** 7) if integer else run.real('cap', 10 ** 5, 10 ** 7))
    fixed = cfg.get('prior_fixed') or {}
    for n in cols:
        if n in fixed:
            q = fixed[n]               # whole-unit configurations keep one symbolic prior position (mixed-integer queries get slow otherwise)
        else:
            q = run.integer('p' + n, -500, 500) if integer else run.real('p' + n, -500, 500)
        s.transact(q, n)
    s.update(dts[0])
    for d in dts[1:]:
        s.update(d)
    if s.bankrupt:
        run.end('bankrupt')
    run.assume(s.value >= 1000)
    return B, s, dts


def h_rebal(run, cfg):
    B, s, dts = mk(run, cfg)
    targets = {k: v for k, v in cfg['targets']}
    cash = cfg.get('cash')
    s.temp = {'weights': dict(targets)}
    if cash is not None:
        s.temp['cash'] = cash
    v0 = s.value
    pos0 = {n: s[n].position for n in ('a', 'b', 'c')}
    try:
        ok = B.algos.Rebalance()(s)
    except Exception as e:
        run.note('raised', repr(e)[:100])
        run.end('raised')
    if s.bankrupt:
        run.end('bankrupt')
    f = 1.0 - (cash or 0.0)
    costly = bool(cfg.get('fee')) or bool(cfg.get('spread'))
    integer = bool(cfg.get('int', 0))
    inv = 0.0
    for n in ('a', 'b', 'c'):
        c = s[n]
        if n in targets:
            want = f * targets[n]
            if not costly and not integer:
                run.check_near(c.weight, want, EPS_W, 'target-weight-exact', 'child %s' % n)
            else:
                # value within one trading unit plus this trade's costs of the target value (base = value before the rebalance)
                q = c.position - pos0[n]
                unit = prices(cfg)[n][-1] * c.multiplier
                cost = abs(q) * 0.5 * (SPREAD[n] if cfg.get('spread') else 0.0) * c.multiplier + (fee_val(cfg['fee'][0], cfg['fee'][1], q, unit) if cfg.get('fee') else 0.0)
                unit_cost = 0.5 * (SPREAD[n] if cfg.get('spread') else 0.0) * c.multiplier + (fee_val(cfg['fee'][0], cfg['fee'][1], 1.0, unit) if cfg.get('fee') else 0.0)
                slack = ((unit + unit_cost) if integer else 0.0) + cost + EPS_MONEY
                run.check_le(abs(c.value - want * v0), slack, EPS_MONEY, 'target-weight-within-unit-and-costs', 'child %s' % n)
            inv = inv + c.weight
        else:
            run.check_near(c.position, 0.0, 1e-9, 'untargeted-child-closed', 'child %s' % n)
    if not costly and not integer:
        run.check_near(s.capital, (1.0 - sum(f * t for t in targets.values())) * s.value, EPS_MONEY, 'remainder-in-cash')
        run.check_near(s.value, v0, EPS_MONEY, 'rebalance-free-without-costs')


def h_subtarget(run, cfg):
    """a sub-strategy used as a target receives capital like a security and spreads it by its children's current weights"""
    B = bt()
    C = B.core
    dts = dates(2)
    cols = ['a', 'b', 'c']
    data = frame(run, dts, cols, lambda i, c: PR[c][i])
    sub = B.Strategy('sub', [], [C.SecurityBase('a'), C.SecurityBase('b', multiplier=10.0)])
    s = B.Strategy('s', [], [sub, C.SecurityBase('c', multiplier=0.5)])
    sub = s['sub']                      # the tree holds a copy of the template
    s.use_integer_positions(False)
    s.setup(data)
    s.update(dts[0])
    s.adjust(run.real('cap', 10 ** 5, 10 ** 7))
    s.allocate(40000.0, 'sub')
    sub.transact(150.0, 'a')
    sub.transact(-20.0, 'b')
    s.transact(run.real('pc', -500, 500), 'c')
    s.update(dts[0])
    s.update(dts[1])
    run.assume(s.value >= 1000)
    wa0, wb0 = sub['a'].weight, sub['b'].weight
    va0, vb0, vsub0 = sub['a'].value, sub['b'].value, sub.value
    v0 = s.value
    targets = {k: v for k, v in cfg['targets']}
    s.temp = {'weights': dict(targets)}
    try:
        B.algos.Rebalance()(s)
    except Exception as e:
        run.end('raised')
    if 'sub' in targets:
        run.check_near(sub.weight, targets['sub'], EPS_W, 'substrategy-target-weight')
        amt = sub.value - vsub0
        run.check_near(sub['a'].value, va0 + amt * wa0, EPS_MONEY, 'substrategy-spreads-by-child-weights', 'a')
        run.check_near(sub['b'].value, vb0 + amt * wb0, EPS_MONEY, 'substrategy-spreads-by-child-weights', 'b')
    else:
        for n in ('a', 'b'):
            run.check_near(sub[n].position, 0.0, 1e-9, 'untargeted-substrategy-flattened', n)
        run.check_near(sub.value, 0.0, EPS_MONEY, 'untargeted-substrategy-emptied')
        run.check_near(sub.capital, 0.0, EPS_MONEY, 'untargeted-substrategy-emptied', 'cash')
    if 'c' in targets:
        run.check_near(s['c'].weight, targets['c'], EPS_W, 'target-weight-exact', 'c')
    else:
        run.check_near(s['c'].position, 0.0, 1e-9, 'untargeted-child-closed', 'c')
    run.check_near(s.value, v0, EPS_MONEY, 'rebalance-free-without-costs')


def h_overtime(run, cfg):
    """RebalanceOverTime(n): each call moves every child 1/(steps left) of the way to the current target vector; a new vector re-arms n steps"""
    B, s, dts = mk(run, dict(cfg, fee=None, spread=0, int=0))
    n = cfg['n']
    alg = B.algos.RebalanceOverTime(n)
    sched = cfg['schedule']           # per call: a target vector or None
    cur_t, left = None, None
    for k, tv in enumerate(sched):
        s.temp = {}
        if tv is not None:
            s.temp['weights'] = {a: b for a, b in tv}
            cur_t, left = {a: b for a, b in tv}, n
        before = {nme: s[nme].weight for nme in ('a', 'b', 'c')}
        try:
            alg(s)
        except Exception as e:
            run.end('raised')
        if cur_t is None:
            continue
        for nme, w in cur_t.items():
            exp = before[nme] + (w - before[nme]) / left
            run.check_near(s[nme].weight, exp, EPS_W, 'overtime-step', 'call %d child %s' % (k, nme))
        left -= 1
        if left == 0:
            for nme, w in cur_t.items():
                run.check_near(s[nme].weight, w, EPS_W, 'overtime-reaches-target', 'child %s' % nme)
            cur_t, left = None, None


HARNESSES = {'rebal': h_rebal, 'subtarget': h_subtarget, 'overtime': h_overtime}
DECIMAL_REPLAYS = {'quick': 2, 'thorough': 4}      # witnesses also replayed on two-decimal inputs (solver models are dyadic: floats exact there)
WITNESS_CAP = {'quick': 120, 'thorough': 300}

TARGETS = [[['a', 0.625], ['b', 0.25]], [['a', 0.5], ['b', -0.25]], [['a', -0.375], ['b', 0.75]], [['b', 1.0]], [['a', 0.25], ['b', 0.25], ['c', 0.25]],
           [['a', 0.125]]]


def plan(tier):
    quick = tier == 'quick'
    opts = dict(max_paths=4000, timeout_ms=5000 if quick else 20000)
    tasks = []
    for tg in TARGETS + [[]]:
        for cash in (None, 0.25):
            tasks.append(dict(harness='rebal', cfg=dict(targets=tg, cash=cash, fee=None, spread=0, int=0), opts=opts))
    # a held security priced exactly zero on two consecutive dates and recovering before the rebalance: targeted, and untargeted
    for tg in ([['a', 0.5], ['c', 0.25]], [['a', 0.625], ['b', 0.25]], []):
        tasks.append(dict(harness='rebal', cfg=dict(targets=tg, cash=None, fee=None, spread=0, int=0, pgrid='zero'), opts=opts))
    costly = TARGETS[:2] if quick else TARGETS
    for tg in costly:
        for integer in (0, 1):
            for cash in ((None,) if quick else (None, 0.25)):
                cfg = dict(targets=tg, cash=cash, fee=['prop', 0.001953125], spread=1, int=integer)
                if integer:
                    cfg['prior_fixed'] = {'b': -30, 'c': 40}
                tasks.append(dict(harness='rebal', cfg=cfg, opts=opts))
                if not quick:
                    c2 = dict(targets=tg, cash=cash, fee=['pershare', 0.0625], spread=0, int=integer)
                    if integer:
                        c2['prior_fixed'] = {'b': -30, 'c': 40}
                    tasks.append(dict(harness='rebal', cfg=c2, opts=opts))
    for tg in ([['sub', 0.5], ['c', 0.25]], [['sub', 0.75]], [['c', 0.5]], [['sub', -0.25], ['c', 0.5]]):
        tasks.append(dict(harness='subtarget', cfg=dict(targets=tg), opts=opts))
    A = [['a', 0.5], ['b', 0.25]]
    Bv = [['a', 0.0], ['b', 0.75]]
    scheds = [(2, [A, None]), (2, [A, Bv, None])] if quick else [(2, [A, None]), (3, [A, None, None]), (2, [A, Bv, None]), (3, [A, Bv, None, None]), (2, [A, None, Bv, None])]
    for n, sched in scheds:
        tasks.append(dict(harness='overtime', cfg=dict(n=n, schedule=sched), opts=opts))
    return tasks
