"""C19 - tree wiring and universe scoping are consistent; lazy children are transparent.

Structural part: the construction recipe (how many children, their kind - string / Security / sub-strategy with own children -, list / dict /
parent= attachment, names from a 3-letter alphabet so that duplicates occur, re-use of the same node object in two constructions, pushes of
integer-position flags at different levels) is a vector of solver-chosen small integers; the space is explored exhaustively through the engine's
choice points (bounded-exhaustive; the solver contributes feasibility only).  Relational part, solver-decided for all data values: lazily
created children vs children constructed up front give identical histories; universes carry exactly the declared tickers plus one column per
sub-strategy equal to the child's price on every date; settings pushed from the top reach every descendant."""
from harness.common import EPS_MONEY, bt, dates, frame

BOUNDS = {
    'added': 'sub-strategy pushed to a whole-unit mode different from its parent (before or after setup) with lazily created securities; late-attached sub-strategy under a parent that declared nothing; structure read by a monitoring algo from the first date; root that never gains a child itself',
    'quick': 'recipes: root with <= 3 children, each a string / Security / strategy(with <= 2 children of its own, one more level in the push test), names from '
             '{a,b,c}, built by list, dict or parent=; 2 pushes of use_integer_positions at solver-chosen nodes; node re-use across two constructions; '
             'lazy-vs-eager and universe scoping on flat and nested trees over 4 dates with symbolic capital and symbolic last-date prices',
    'thorough': 'adds whole-unit positions and commissions to the relational part',
}
ASSUMPTIONS = ['structural part is bounded-exhaustive enumeration (weakest claim of this suite)']
PR = {'a': [100.0, 105.0, 95.0, 101.5], 'b': [37.5, 33.0, 41.25, 40.0], 'c': [10.0, 11.0, 12.5, 9.75]}
NAMES = ['a', 'b', 'c']


def walk(n):
    out = [n]
    for c in n.children.values():
        out += walk(c)
    return out


def check_structure(run, root, tag=''):
    run.check(root.parent is root and root.root is root, 'root-is-own-parent' + tag)
    for n in walk(root):
        names = [c.name for c in n.children.values()]
        run.check(len(names) == len(set(names)) and names == list(n.children.keys()), 'sibling-names-unique-and-keyed' + tag, str(names))
        for c in n.children.values():
            run.check(c.parent is n, 'parent-link' + tag, c.name)
            run.check(c.root is root, 'root-link' + tag, c.name)
            run.check(c.full_name == n.full_name + '>' + c.name, 'full-name' + tag, c.full_name)
    run.check([id(m) for m in root.members] == [id(m) for m in walk(root)], 'members-is-depth-first-walk' + tag)


def h_struct(run, cfg):
    B = bt()
    C = B.core
    how = run.choose('how', 3)             # 0 list, 1 dict, 2 parent= attachment
    n = run.choose('n', 3) + 1
    spec = []
    for i in range(n):
        kind = run.choose('kind%d' % i, 3)     # 0 string, 1 Security, 2 sub-strategy
        name = NAMES[run.choose('name%d' % i, 3)]
        spec.append((kind, name))

    def mk(kind, name):
        if kind == 0:
            return name
        if kind == 1:
            return C.Security(name)
        return C.StrategyBase('s' + name, [C.Security('a'), 'b'])
    kids = [mk(k, nm) for k, nm in spec]
    eff = [(k, (nm if k != 2 else 's' + nm)) for k, nm in spec]
    eff_names = [nm for _, nm in eff]
    dup = len(set(eff_names)) != len(eff_names)
    try:
        if how == 0:
            root = C.StrategyBase('root', kids)
        elif how == 1:
            # dict construction: keys are the names (strings map to themselves); the originals must keep their own names
            keys = ['k%d' % i for i in range(n)]
            d = {}
            for key, (k, nm), obj in zip(keys, spec, kids):
                if k == 0:
                    d[obj] = obj
                else:
                    d[key] = obj
            root = C.StrategyBase('root', d)
            dup = len(set(d.keys())) != n
            eff_names = list(d.keys())
            for (k, nm), obj in zip(spec, kids):
                if k != 0:
                    run.check(obj.name == (nm if k == 1 else 's' + nm), 'dict-construction-leaves-caller-objects-alone', '%s renamed to %s' % (nm, obj.name))
        else:
            root = C.StrategyBase('root')
            for (k, nm), obj in zip(spec, kids):
                if k == 0:
                    root._add_children([obj], dc=True)
                elif k == 1:
                    root._add_children([obj], dc=True)
                else:
                    C.StrategyBase('s' + nm, [C.Security('a'), 'b'], parent=root)
    except ValueError:
        run.check(dup, 'duplicate-sibling-names-rejected-only-when-duplicate', str(eff_names))
        run.end('duplicate-rejected')
    # no exception: names must have been unique (strings are lazy: duplicates among strings/securities collide in the ticker list)
    check_structure(run, root)
    present = list(root.children.keys()) + list(root._lazy_children.keys())
    if how != 1:
        run.check(set(present) == set(eff_names), 'children-are-the-declared-ones', '%s vs %s' % (present, eff_names))
    # re-use of the same node objects in a second construction must see their original names
    again = [o for o in kids if not isinstance(o, str)]
    if again:
        r2 = C.StrategyBase('again', again[:1])
        k0 = [x for x in eff if x[0] != 0][0]
        run.check(list(r2.children.keys()) == [k0[1]] or list(r2._lazy_children.keys()) == [k0[1]], 'node-reuse-keeps-name', str(list(r2.children.keys())))


def h_push(run, cfg):
    """use_integer_positions pushed at any node reaches every descendant, whatever was set below before"""
    B = bt()
    C = B.core
    leaf = C.StrategyBase('leaf', [C.Security('a'), C.Security('b')])
    mid = C.StrategyBase('mid', [leaf, C.Security('c')])
    root = C.StrategyBase('root', [mid, C.Security('a')])
    nodes = walk(root)
    flags = {id(n): n.integer_positions for n in nodes}
    for k in range(cfg.get('pushes', 3)):
        i = run.choose('node%d' % k, len(nodes))
        v = bool(run.choose('val%d' % k, 2))
        nodes[i].use_integer_positions(v)
        for m in walk(nodes[i]):
            flags[id(m)] = v
    for n in nodes:
        run.check(n.integer_positions == flags[id(n)], 'integer-positions-reach-every-descendant', '%s is %s expected %s' % (n.full_name, n.integer_positions, flags[id(n)]))
    # lazily created children inherit the setting of their parent at creation time
    dts = dates(2)
    data = frame(run, dts, ['a', 'b', 'c', 'z'], lambda i, c: 10.0)
    root.setup(data)
    root.update(dts[0])
    root.adjust(1000.0)
    leaf_live = root['mid']['leaf']
    leaf_live.transact(1.0, 'z') if False else None
    fn = lambda q, p: 1.0
    root.set_commissions(fn)
    for n in walk(root):
        if isinstance(n, C.StrategyBase):
            run.check(n.commission_fn is fn, 'commission-function-reaches-every-substrategy', n.full_name)


def mk_backtest(run, B, cfg, eager):
    A = B.algos
    C = B.core
    dts = dates(4)

    def px(i, c):
        if i == 3 and cfg.get('symlast', 1):
            return run.real('p3' + c, 1, 300)
        return PR[c][i]
    data = frame(run, dts, ['a', 'b', 'c'], px)
    kids = (lambda names: [C.Security(n) for n in names]) if eager else (lambda names: list(names))

    class Monitor(A.Algo):
        """reads the tree's structure on every run, from the first date on (before any lazily named security exists)"""
        def __call__(self, target):
            target.perm.setdefault('seen', []).append((len(target.members), len(target.securities), list(target.positions.columns)))
            return True
    mon = [Monitor()] if cfg.get('monitor') else []
    if cfg['shape'] == 'flat':
        s = B.Strategy('s', mon + [A.RunDaily(), A.SelectAll(), A.WeighSpecified(a=0.5, b=0.25), A.Rebalance()], kids(['a', 'b']))
    elif cfg['shape'] == 'nested_only':
        # the root itself never gains a child after construction: only its sub-strategy creates securities on first use
        k = B.Strategy('kid', [A.RunDaily(), A.SelectAll(), A.WeighEqually(), A.Rebalance()], kids(['a', 'b']))
        s = B.Strategy('s', mon + [A.RunDaily(), A.WeighSpecified(kid=0.75), A.Rebalance()], [k])
    else:
        k = B.Strategy('kid', [A.RunDaily(), A.SelectAll(), A.WeighEqually(), A.Rebalance()], kids(['a', 'b']))
        s = B.Strategy('s', mon + [A.RunDaily(), A.WeighSpecified(kid=0.625, c=0.25), A.Rebalance()], [k] + kids(['c']))
    return data, dts, s


def h_lazy_eager(run, cfg):
    B = bt()
    integer = bool(cfg.get('int', 0))
    cap = float(cfg['cap']) if cfg.get('cap') else run.real('cap', 10 ** 4, 10 ** 7)
    fee = (lambda q, p: 0.001953125 * abs(q) * p) if cfg.get('fee') else None
    res = []
    for eager in (False, True):
        data, dts, s = mk_backtest(run, B, cfg, eager)
        t = B.Backtest(s, data, initial_capital=cap, integer_positions=integer, commissions=fee)
        try:
            t.run()
        except ZeroDivisionError:
            run.end('zero-base')
        res.append(t)
    t1, t2 = res
    for d in t1.strategy.values.index:
        run.check_near(t1.strategy.values[d], t2.strategy.values[d], EPS_MONEY, 'lazy=eager-values', str(d))
        run.check_near(t1.strategy.prices[d], t2.strategy.prices[d], 1e-7, 'lazy=eager-prices', str(d))
        run.check_near(t1.strategy.cash[d], t2.strategy.cash[d], EPS_MONEY, 'lazy=eager-cash', str(d))
    p1, p2 = t1.positions, t2.positions
    run.check(sorted(p1.columns) == sorted(p2.columns), 'lazy=eager-position-columns', '%s vs %s' % (list(p1.columns), list(p2.columns)))
    for n in p1.columns:
        for d in p1.index:
            a, b = p1[n][d], p2[n][d]
            if isinstance(a, float) and a != a:
                a = 0.0
            if isinstance(b, float) and b != b:
                b = 0.0
            run.check_near(a, b, 1e-9, 'lazy=eager-positions', '%s @%s' % (n, d))
    # the finished trees have the same shape, whenever their structure was first looked at
    n1 = sorted(m.full_name for m in t1.strategy.members)
    n2 = sorted(m.full_name for m in t2.strategy.members)
    run.check(n1 == n2, 'lazy=eager-members', '%s vs %s' % (n1, n2))
    run.check(sorted(x.full_name for x in t1.strategy.securities) == sorted(x.full_name for x in t2.strategy.securities), 'lazy=eager-securities')
    for t in res:
        check_structure(run, t.strategy, ' after run')
        run.check(sorted(m.full_name for m in t.strategy.members) == sorted(m.full_name for m in walk(t.strategy)), 'members=tree-walk', t.strategy.name)
    # settings pushed from the top reached lazily created securities too
    C = B.core
    for t in res:
        for m in walk(t.strategy):
            run.check(m.integer_positions == integer, 'integer-positions-reach-lazy-children', m.full_name)
    # universe scoping
    for t in res:
        st = t.strategy
        if cfg['shape'] == 'flat':
            run.check(sorted(st.universe.columns) == ['a', 'b'], 'universe-is-declared-tickers', str(list(st.universe.columns)))
        elif cfg['shape'] == 'nested_only':
            run.check(sorted(st.universe.columns) == ['kid'], 'universe-is-declared-tickers-plus-substrategies', str(list(st.universe.columns)))
            run.check(sorted(st['kid'].universe.columns) == ['a', 'b'], 'substrategy-universe-is-its-own-tickers', str(list(st['kid'].universe.columns)))
        else:
            run.check(sorted(st.universe.columns) == ['c', 'kid'], 'universe-is-declared-tickers-plus-substrategies', str(list(st.universe.columns)))
            kid = st['kid']
            run.check(sorted(kid.universe.columns) == ['a', 'b'], 'substrategy-universe-is-its-own-tickers', str(list(kid.universe.columns)))
            for d in kid.prices.index[1:]:
                run.check_near(st.universe['kid'][d], kid.prices[d], 1e-7, 'substrategy-column-is-child-price', str(d))


def h_all_universe(run, cfg):
    """a strategy that declares no children sees every ticker"""
    B = bt()
    A = B.algos
    dts = dates(3)
    data = frame(run, dts, ['a', 'b', 'c'], lambda i, c: run.real('p%d%s' % (i, c), 1, 300) if i == 2 else PR[c][i])
    s = B.Strategy('s', [A.RunDaily(), A.SelectAll(), A.WeighEqually(), A.Rebalance()])
    if cfg.get('late'):
        # ... plus a column for a sub-strategy attached afterwards through the parent argument
        B.Strategy('kid', [A.RunDaily(), A.SelectAll(), A.WeighEqually(), A.Rebalance()], ['a'], parent=s)
    t = B.Backtest(s, data, integer_positions=False)
    t.run()
    if cfg.get('late'):
        st = t.strategy
        kid = st['kid']
        run.check(sorted(st.universe.columns) == ['a', 'b', 'c', 'kid'], 'undeclared-universe-is-all-tickers-plus-substrategies', str(list(st.universe.columns)))
        run.check(sorted(kid.universe.columns) == ['a'], 'substrategy-universe-is-its-own-tickers', str(list(kid.universe.columns)))
        check_structure(run, st, ' late child')
        for d in dts:
            run.check_near(st.universe['kid'][d], kid.prices[d], 1e-7, 'substrategy-column-is-child-price', str(d))
        # the parent trades the sub-strategy like any other name it sees
        run.check('kid' in st.children and bool(abs(st['kid'].value) > 0), 'late-child-is-allocated', 'value %r' % (st['kid'].value,))
        for d in dts:
            for c in 'abc':
                run.check_near(st.universe[c][d], data[c][d], 1e-12, 'universe-carries-input-prices', '%s@%s' % (c, d))
        return
    run.check(sorted(t.strategy.universe.columns) == ['a', 'b', 'c'], 'undeclared-universe-is-all-tickers')
    for d in dts:
        for c in 'abc':
            run.check_near(t.strategy.universe[c][d], data[c][d], 1e-12, 'universe-carries-input-prices', '%s@%s' % (c, d))


def h_submode(run, cfg):
    """a setting pushed at a sub-strategy (different from its parent's) also governs securities that the sub-strategy creates later on first use:
    the lazily built tree ends exactly like the one built up front"""
    B = bt()
    C = B.core
    dts = dates(2)
    data = frame(run, dts, ['a', 'b'], lambda i, c: {'a': 30.0, 'b': 7.0}[c])
    amt = run.real('amt', 50, 5000) if not cfg['sub_int'] else 1051.0      # whole-unit sizing of a symbolic real amount is slow (floor): concrete there
    res = []
    for eager in (False, True):
        kids = [C.Security('a'), C.Security('b')] if eager else ['a', 'b']
        sub = C.Strategy('sub', [], kids)
        root = C.Strategy('root', [], [sub])
        root.use_integer_positions(bool(cfg['root_int']))
        root['sub'].use_integer_positions(bool(cfg['sub_int']))
        root.setup(data)
        sub = root['sub']
        if cfg.get('after_setup'):
            sub.use_integer_positions(bool(cfg['sub_int']))
        root.update(dts[0])
        root.adjust(100000.0)
        root.allocate(50000.0, 'sub')
        root.update(dts[0])
        sub.allocate(amt, 'a')
        sub.allocate(-amt, 'b')
        root.update(dts[0])
        res.append((root, sub))
    (r1, s1), (r2, s2) = res
    for n in ('a', 'b'):
        run.check(s1[n].integer_positions == bool(cfg['sub_int']), 'integer-positions-reach-lazy-children', '%s flag %r, sub-strategy pushed %r' % (n, s1[n].integer_positions, bool(cfg['sub_int'])))
        run.check_near(s1[n].position, s2[n].position, 1e-9, 'lazy=eager-positions', n)
    run.check_near(r1.value, r2.value, EPS_MONEY, 'lazy=eager-values', 'root')
    run.check_near(s1.capital, s2.capital, EPS_MONEY, 'lazy=eager-cash', 'sub')


HARNESSES = {'submode': h_submode, 'struct': h_struct, 'push': h_push, 'lazy_eager': h_lazy_eager, 'all_universe': h_all_universe}
WITNESS_CAP = {'quick': 150, 'thorough': 300}


def plan(tier):
    quick = tier == 'quick'
    opts = dict(max_paths=100000, timeout_ms=10000)
    tasks = [dict(harness='struct', cfg={}, opts=opts), dict(harness='push', cfg=dict(pushes=2 if quick else 3), opts=opts),
             dict(harness='all_universe', cfg={}, opts=opts), dict(harness='all_universe', cfg=dict(late=1), opts=opts)]
    tasks.append(dict(harness='lazy_eager', cfg=dict(shape='nested_only', int=0, fee=0, monitor=1), opts=opts))
    tasks.append(dict(harness='lazy_eager', cfg=dict(shape='nested_only', int=0, fee=0), opts=opts))
    for ri, si in ((1, 0), (0, 1), (1, 1), (0, 0)):
        for after in (0, 1):
            tasks.append(dict(harness='submode', cfg=dict(root_int=ri, sub_int=si, after_setup=after), opts=opts))
    for shape in ('flat', 'nested'):
        tasks.append(dict(harness='lazy_eager', cfg=dict(shape=shape, int=0, fee=0), opts=opts))
        tasks.append(dict(harness='lazy_eager', cfg=dict(shape=shape, int=0, fee=0, monitor=1), opts=opts))
        tasks.append(dict(harness='lazy_eager', cfg=dict(shape=shape, int=1, fee=0, cap=123456.0, symlast=0), opts=opts))
        if not quick:
            tasks.append(dict(harness='lazy_eager', cfg=dict(shape=shape, int=0, fee=1), opts=opts))
    return tasks
