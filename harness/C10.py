"""C10 - well-formed runs complete with finite results; ill-formed states raise.

(i)  A catalogue of well-formed backtests (the stack catalogue of C04: every stock scheduling / selection / statistic / weighting / rebalancing
     algo, nested and fixed-income trees, late listings, explicit Security children that are not priced yet) is executed symbolically with the
     last date's data symbolic, and the report accessors are called on the finished run: any exception on a feasible path, or a non-finite
     recorded strategy value / price / cash, is a violation.  Every completed path's model is replayed on real float64 pandas on the interpreted
     source AND on a freshly cythonized build of the working tree (this is where 'under the installed library versions, on both builds' is decided).
(ii) Each enumerated ill-formed class must raise."""
import math

import pandas as pd

from harness import C04
from harness.common import bt, dates, frame

BOUNDS = {
    'added': 'duplicate children (two names, node then name, two nodes); zero quote before trading under SelectHasData / SelectAll; custom price of the bid/offer-less trade symbolic in [-10,200]',
    'quick': '12 stacks of the C04 catalogue x {daily, intraday} x fee/bid-offer on/off, last date symbolic (prices in [0.5,1000], stats, weights, coupons, unit risks), '
             'fractional positions; 7 ill-formed classes; witness replays on source and compiled build',
    'thorough': 'adds whole-unit positions on concrete data and two symbolic dates',
    'wellformed_costs': 'daily rebalance of two securities with multipliers {1,10,50}x{1,2}, commission families per-share / proportional / max(fixed, per-share), '
                        'long and long/short targets, 3 dates with concrete prices, symbolic initial capital in [1e5,1e7] (a symbolic price makes the sizing search '
                        'a rational function of growing degree: outside the claim); spread on in thorough',
}
ASSUMPTIONS = ['bt\'s documented zero-base ZeroDivisionError ends a path (it is one of the ill-formed classes)',
               'whole-unit sizing exceptions are C05\'s known findings and are not re-reported here (symbolic runs use fractional positions)']


def finite(v):
    if isinstance(v, float):
        return not (math.isnan(v) or math.isinf(v))
    return True


def h_wellformed(run, cfg):
    B = bt()
    guards = C04.install_kernel_guards(B, run)
    try:
        n = len(C04.DTS_D)
        c = dict(cfg, cut=n - 1 - cfg.get('symdates', 1))
        w = C04.build(run, c, lambda name, lo, hi: run.real(name, lo, hi), B)
        if cfg['stack'] == 'fixedincome':
            s = B.core.FixedIncomeStrategy('s', w.algos, w.children)
        else:
            s = B.Strategy('s', w.algos, w.children)
        t = B.Backtest(s, w.data, integer_positions=bool(cfg.get('int', 0)), additional_data=w.add or None,
                       commissions=(lambda q, p: 0.001953125 * abs(q) * p) if cfg.get('fee') else None)
        try:
            t.run()
            st = t.strategy
        except ZeroDivisionError as e:
            if 'dividing by zero' in str(e):
                run.end('zero-base')
            run.fail('wellformed-run-completes', repr(e))
        except C04.Leak as e:
            run.end('kernel-on-symbolic-window')      # a numeric kernel would receive the symbolic last-date cells: environment, not claimed
        except Exception as e:
            run.fail('wellformed-run-completes', '%s: %r' % (cfg['stack'], e))
        try:
            reports = [t.weights, t.security_weights, t.positions, t.herfindahl_index, t.turnover, st.get_transactions(), st.outlays]
        except ZeroDivisionError as e:
            # pandas divides object-dtype cells with Python semantics (x/0 raises) where float64 frames give inf/NaN: the reports of this path
            # are checked by the concrete replay on real float64 frames
            run.check(True, 'wellformed-run-completes')
            run.end('deferred-to-concrete')
        except Exception as e:
            run.fail('reports-complete', '%s: %r' % (cfg['stack'], e))
        for m in st.members:
            if isinstance(m, B.core.StrategyBase):
                for nm in ('_values', '_prices', '_cash', '_fees'):
                    ser = getattr(m, nm)
                    for d in ser.index:
                        if d <= st.now and not finite(ser[d]):
                            run.fail('recorded-numbers-finite', '%s.%s@%s = %r' % (m.full_name, nm, d, ser[d]))
        run.check(True, 'wellformed-run-completes')
    finally:
        guards['undo']()


def h_wellformed_costs(run, cfg):
    """Daily rebalance of two securities with contract multipliers under a commission (and optionally a spread): the sizing search of
    SecurityBase.allocate has to converge on every well-formed price path."""
    B = bt()
    A = B.algos
    C = B.core
    from harness.common import fee_fn
    dts = dates(3)
    ma, mb = cfg['mults']
    sym = cfg.get('sym', [])
    base = {'a': [100.0, 104.0, 98.0], 'b': [37.5, 36.0, 40.0]}
    data = frame(run, dts, ['a', 'b'], lambda i, c: run.real('p_%s%d' % (c, i), 10, 200) if [c, i] in sym else base[c][i])
    kids = [C.Security('a', multiplier=ma), C.Security('b', multiplier=mb)]
    s = B.Strategy('s', [A.RunDaily(), A.SelectAll(), A.WeighSpecified(a=cfg['w'][0], b=cfg['w'][1]), A.Rebalance()], kids)
    add = None
    if cfg.get('spread'):
        add = {'bidoffer': frame(run, dts, ['a', 'b'], lambda i, c: 0.25)}
    t = B.Backtest(s, data, initial_capital=run.real('cap', 10 ** 5, 10 ** 7), integer_positions=False, commissions=fee_fn(*cfg['fee']), additional_data=add)
    try:
        t.run()
    except Exception as e:
        run.fail('wellformed-run-completes', 'mults %r fee %r: %r' % (cfg['mults'], cfg['fee'], e))
    st = t.strategy
    for m in st.members:
        if isinstance(m, C.StrategyBase):
            for nm in ('_values', '_prices', '_cash', '_fees'):
                ser = getattr(m, nm)
                for d in ser.index:
                    if d <= st.now and not finite(ser[d]):
                        run.fail('recorded-numbers-finite', '%s.%s@%s = %r' % (m.full_name, nm, d, ser[d]))
    run.check(True, 'wellformed-run-completes')


def h_wellformed_zero_quote(run, cfg):
    """a security quoted at exactly 0.0 before it starts trading (never held while at zero): selection algos that exclude non-positive prices keep the
    run well-formed"""
    B = bt()
    A = B.algos
    dts = dates(5)
    P = {'a': [100.0, 104.0, 98.0, 101.0, 99.0], 'b': [0.0, 0.0, 40.0, 42.0, 41.0], 'c': [10.0, 0.0, 0.0, 12.0, 11.0]}
    cols = cfg['cols']
    data = frame(run, dts, cols, lambda i, c: P[c][i])
    sel = {'hasdata': A.SelectHasData(lookback=pd.DateOffset(days=1), min_count=1), 'all': A.SelectAll(), 'momentum': A.SelectMomentum(2, lookback=pd.DateOffset(days=1))}[cfg['select']]
    pre = [A.SelectAll()] if cfg['select'] == 'momentum' else []
    s = B.Strategy('s', [A.RunDaily()] + pre + [sel, A.WeighEqually(), A.Rebalance()])
    t = B.Backtest(s, data, initial_capital=run.real('cap', 10 ** 4, 10 ** 7), integer_positions=False)
    try:
        t.run()
    except Exception as e:
        run.fail('wellformed-run-completes', '%s on %s: %r' % (cfg['select'], cols, e))
    st = t.strategy
    for nm in ('_values', '_prices', '_cash'):
        ser = getattr(st, nm)
        for d in ser.index:
            if d <= st.now and not finite(ser[d]):
                run.fail('recorded-numbers-finite', '%s@%s = %r' % (nm, d, ser[d]))
    run.check(True, 'wellformed-run-completes')


def expect_raises(run, label, fn, detail=''):
    try:
        fn()
    except Exception:
        run.check(True, label)
        return
    run.fail(label, 'no exception: ' + detail)


def h_illformed(run, cfg):
    B = bt()
    A = B.algos
    C = B.core
    dts = dates(4)
    kind = cfg['kind']
    nan = float('nan')
    if kind == 'trade-at-nan-or-zero-price':
        for bad in (nan, 0.0):
            data = frame(run, dts, ['a', 'b'], lambda i, c: bad if (c == 'b' and i >= 1) else 100.0)
            s = B.Strategy('s', [A.RunDaily(), A.SelectAll(include_no_data=True, include_negative=True), A.WeighEqually(), A.Rebalance()])
            t = B.Backtest(s, data, initial_capital=run.real('cap', 1000, 10 ** 6), integer_positions=False)
            expect_raises(run, 'trade-at-bad-price-refused', t.run, 'price %r' % bad)
    elif kind == 'nan-price-on-open-position':
        for series in ([100.0, 105.0, nan, 101.0], [100.0, 0.0, 0.0, nan], [100.0, 0.0, nan, nan]):
            data = frame(run, dts, ['a', 'b'], lambda i, c: series[i] if c == 'a' else 50.0)
            s = B.Strategy('s', [A.RunOnce(), A.SelectAll(), A.WeighSpecified(a=0.5, b=0.25), A.Rebalance()])
            t = B.Backtest(s, data, initial_capital=run.real('cap', 1000, 10 ** 6), integer_positions=False)
            expect_raises(run, 'nan-price-on-open-position-raises', t.run, str(series))
    elif kind == 'nan-coupon-on-open-position':
        data = frame(run, dts, ['a'], lambda i, c: 100.0)
        cp = frame(run, dts, ['a'], lambda i, c: nan if i == 2 else 0.5)
        s = C.FixedIncomeStrategy('s', [A.RunOnce(), A.SelectAll(), A.WeighSpecified(a=1.0), A.SetNotional('n'), A.Rebalance()], [C.CouponPayingSecurity('a')])
        t = B.Backtest(s, data, additional_data={'coupons': cp, 'n': pd.Series([run.real('notl', 10, 1000)] * 4, index=dts)})
        expect_raises(run, 'nan-coupon-on-open-position-raises', t.run)
    elif kind == 'duplicate-columns':
        data = pd.DataFrame([[1.0, 2.0, 3.0]] * 4, index=dts, columns=['a', 'b', 'a'])
        expect_raises(run, 'duplicate-tickers-rejected', lambda: B.Backtest(B.Strategy('s', []), data))
        # ... and the same ticker declared twice among a strategy's children, in any mix of names and node objects
        for label, mk in (('two names', lambda: ['a', 'b', 'a']), ('node then name', lambda: [C.Security('a'), 'b', 'a']),
                          ('two nodes', lambda: [C.Security('a'), C.Security('a')])):
            # (a name followed by a node object of that name is NOT a duplicate: bt documents it as supplying the implementation of a child declared
            #  earlier - tests/test_core.py::test_node_tree3)
            expect_raises(run, 'duplicate-children-rejected', lambda mk=mk: B.Strategy('s', [], mk()), label)
    elif kind == 'zero-base':
        data = frame(run, dts, ['a'], lambda i, c: 100.0)
        s = C.StrategyBase('s', [C.SecurityBase('a')])
        s.setup(data)
        s.update(dts[0])
        x = run.real('x', 1, 1000)

        def f():
            s.adjust(x, flow=False)         # value becomes non-zero while last value + flows is zero
            s.update(dts[0])
        expect_raises(run, 'return-on-zero-base-raises', f)
        fi = C.FixedIncomeStrategy('f', [], [C.Security('a')])
        fi.setup(data)
        fi.update(dts[0])

        def g():
            fi.adjust(x, flow=False)        # p&l with zero notional
            fi.update(dts[0])
        expect_raises(run, 'fi-return-on-zero-notional-raises', g)
    elif kind == 'fi-child-under-market-value-parent':
        data = frame(run, dts, ['a'], lambda i, c: 100.0)
        kid = C.FixedIncomeStrategy('kid', [], [C.Security('a')])
        par = B.Strategy('par', [], [kid])
        expect_raises(run, 'fi-child-under-market-value-parent-rejected', lambda: par.setup(data))
    elif kind == 'custom-price-without-bidoffer':
        data = frame(run, dts, ['a'], lambda i, c: 100.0)
        s = C.StrategyBase('s', [C.SecurityBase('a')])
        s.setup(data)
        s.update(dts[0])
        s.adjust(10000.0)
        q = run.real('q', 1, 50)
        px = run.real('px', -10, 200)          # any custom price, zero included
        expect_raises(run, 'custom-price-without-bidoffer-rejected', lambda: s['a'].transact(q, price=px), 'custom price %r' % (px,))
    else:
        raise ValueError(kind)


HARNESSES = {'wellformed_zero_quote': h_wellformed_zero_quote, 'wellformed': h_wellformed, 'wellformed_costs': h_wellformed_costs, 'illformed': h_illformed}
WITNESS_CAP = {'quick': 200, 'thorough': 400}
COMPILED_REPLAY = {'quick': True, 'thorough': True}
ILL = ['trade-at-nan-or-zero-price', 'nan-price-on-open-position', 'nan-coupon-on-open-position', 'duplicate-columns', 'zero-base',
       'fi-child-under-market-value-parent', 'custom-price-without-bidoffer']


def plan(tier):
    quick = tier == 'quick'
    opts = dict(max_paths=300, timeout_ms=5000, max_seconds=200 if quick else 900)
    tasks = []
    for st in C04.STACKS:
        for lag in (0, 1):
            for variant in (dict(), dict(intraday=1), dict(bidoffer=1, fee=1)):
                if quick and lag == 1 and variant:
                    continue
                if st == 'fixedincome' and variant.get('bidoffer'):
                    continue
                tasks.append(dict(harness='wellformed', cfg=dict(stack=st, lag=lag, int=0, **variant), opts=opts))
        if not quick:
            tasks.append(dict(harness='wellformed', cfg=dict(stack=st, lag=0, int=0, symdates=2), opts=opts))
            if st != 'targetvol':
                # TargetVol before enough history yields NaN weights; with whole-unit positions Rebalance then raises on floor(NaN): outside the
                # well-formed class (the stack would be gated by RunAfterDays in practice)
                tasks.append(dict(harness='wellformed', cfg=dict(stack=st, lag=0, int=1, symdates=0), opts=opts))
    copts = dict(max_paths=400, timeout_ms=10000, max_seconds=200 if quick else 900)
    for mults in ([1.0, 1.0], [10.0, 1.0], [50.0, 2.0]):
        for fee in (['pershare', 2.5], ['prop', 0.001953125], ['maxfixed', [1.0, 0.0625]]):
            for spread in ((0,) if quick else (0, 1)):
                for w in ([0.625, 0.25], [0.75, -0.25]):
                    tasks.append(dict(harness='wellformed_costs', cfg=dict(mults=mults, fee=fee, spread=spread, w=w), opts=copts))
    for cols in (['a', 'b'], ['a', 'b', 'c']):
        for sel in ('hasdata', 'all'):
            if sel == 'all' and 'c' in cols:
                continue          # c is held when its quote drops to zero: SelectAll would keep trading it (ill-formed: zero price on a held name)
            tasks.append(dict(harness='wellformed_zero_quote', cfg=dict(cols=cols, select=sel), opts=opts))
    for k in ILL:
        tasks.append(dict(harness='illformed', cfg=dict(kind=k), opts=opts))
    return tasks
