"""C11 - backtests are isolated, repeatable and never mutate their inputs.

Symbolic non-interference: backtests built from one template (stateful and random algos included) over data with symbolic capital / cells are run in
a solver-chosen order; every history of a run must equal the histories of the same backtest run alone; the template's reachable state (algo flags,
perm, children, commission function, names) and every input-frame cell are identical before and after construction and run; run() twice changes
nothing.  Hash-seed dependence: `set` in bt.core / bt.algos is replaced by a set whose iteration order is a solver-chosen permutation and two runs under
independent permutations must agree.  Random algos: the RNG is an arbitrary fixed stream (solver variables), results are a function of inputs and stream.
Complementary (not solver-based): the same small backtest in fresh interpreters under PYTHONHASHSEED 0..3."""
import copy
import itertools
import json
import os
import subprocess
import sys

import pandas as pd

from harness.common import EPS_MONEY, bt, dates, frame

BOUNDS = {
    'quick': 'templates: stateful (RunOnce, RunAfterDays, RunEveryNPeriods, RebalanceOverTime, perm-writing algo), nested, tie-ranking (SelectN on a statistic '
             'with exact ties, declared children), random (SelectRandomly + WeighRandomly on a symbolic RNG stream); 4 dates; capital symbolic; two backtests '
             'per template in either order; set-iteration permutations for up to 3 tickers (6 orders, two independent draws per run)',
    'thorough': 'adds commissions/bid-offer and whole-unit positions',
}
ASSUMPTIONS = ['equality across operating-system processes and real PYTHONHASHSEED values is covered by the permutation model of set iteration (solver) and by a '
               'complementary concrete 4-seed subprocess run, not by the solver']
PR = {'a': [100.0, 105.0, 95.0, 101.5], 'b': [37.5, 33.0, 41.25, 40.0], 'c': [10.0, 11.0, 12.5, 9.75]}


def template(B, kind):
    A = B.algos
    C = B.core

    class Count(B.Algo):
        def __call__(self, target):
            target.perm['n'] = target.perm.get('n', 0) + 1
            return True
    if kind == 'stateful':
        return B.Strategy('tpl', [Count(), A.RunAfterDays(1), A.Or([A.RunOnce(), A.RunEveryNPeriods(2)]), A.SelectAll(), A.WeighEqually(), A.RebalanceOverTime(2)],
                          ['a', 'b', 'c'])
    if kind == 'nested':
        kid = B.Strategy('kid', [A.RunDaily(), A.RunOnce(), A.SelectAll(), A.WeighEqually(), A.Rebalance()], ['a', 'b'])
        return B.Strategy('tpl', [Count(), A.RunDaily(), A.WeighSpecified(kid=0.625, c=0.25), A.Rebalance()], [kid, 'c'])
    if kind == 'ties':
        return B.Strategy('tpl', [A.RunDaily(), A.SelectAll(), A.SetStat('rating'), A.SelectN(1), A.WeighEqually(), A.Rebalance()], ['a', 'b', 'c'])
    if kind == 'ties_filter':
        return B.Strategy('tpl', [A.RunDaily(), A.SelectAll(), A.SetStat('rating'), A.SelectN(2, filter_selected=True), A.WeighEqually(), A.Rebalance()])
    if kind == 'active':
        # filter_selected: the closed name must not be picked again from the full statistic row (it would be re-bought on the close date itself)
        return B.Strategy('tpl', [A.ClosePositionsAfterDates('cd'), A.RunDaily(), A.SelectAll(), A.SelectActive(), A.SetStat('rating'), A.SelectN(1, filter_selected=True),
                                  A.WeighEqually(), A.Rebalance()], [C.Security('a'), C.Security('b'), C.Security('c')])
    if kind == 'risk':
        # a risk measure whose table has no column for one of the securities
        return B.Strategy('tpl', [A.RunDaily(), A.SelectAll(), A.WeighEqually(), A.Rebalance(), A.UpdateRisk('r1', history=1)], ['a', 'b', 'c'])
    if kind == 'active_random':
        return B.Strategy('tpl', [A.ClosePositionsAfterDates('cd'), A.RunDaily(), A.SelectAll(), A.SelectActive(), A.SelectRandomly(1), A.WeighEqually(), A.Rebalance()],
                          [C.Security('a'), C.Security('b'), C.Security('c')])
    if kind == 'random':
        return B.Strategy('tpl', [A.RunDaily(), A.RunOnce(), A.SelectAll(), A.SelectRandomly(2), A.WeighEqually(), A.Rebalance()], ['a', 'b', 'c'])
    raise ValueError(kind)


def snapshot(obj, depth=0, seen=None):
    """structural snapshot of a template: names, children, algo attributes (flags, counters), perm/temp, commission function identity"""
    seen = seen if seen is not None else set()
    if id(obj) in seen or depth > 6:
        return '<seen>'
    seen.add(id(obj))
    if isinstance(obj, (int, float, str, bool, type(None))):
        return obj
    if isinstance(obj, (list, tuple)):
        return [snapshot(x, depth + 1, seen) for x in obj]
    if isinstance(obj, (set, frozenset)):
        return sorted(repr(x) for x in obj)
    if isinstance(obj, dict):
        return {repr(k): snapshot(v, depth + 1, seen) for k, v in obj.items()}
    if isinstance(obj, (pd.DataFrame, pd.Series)):
        return ('frame', id(obj), obj.shape)
    if callable(obj) and not hasattr(obj, '__dict__'):
        return ('callable', id(obj))
    d = getattr(obj, '__dict__', None)
    if d is None:
        return ('obj', type(obj).__name__, id(obj) if callable(obj) else repr(obj)[:60])
    out = {'__type__': type(obj).__name__}
    for k, v in d.items():
        if k in ('parent', 'root'):
            out[k] = getattr(v, 'name', None)
        elif callable(v) and hasattr(v, '__func__'):
            out[k] = ('method', v.__func__.__qualname__)
        elif callable(v) and not hasattr(v, '__dict__'):
            out[k] = ('callable', id(v))
        else:
            out[k] = snapshot(v, depth + 1, seen)
    return out


def cells(df):
    def key(v):
        # symbolic cells by identity (terms are immutable objects), everything else by value
        return ('sym', id(v)) if type(v).__module__.startswith('symbt') else v
    return [(i, c, key(df[c][i])) for i in df.index for c in df.columns]


def flat_add(add, prefix=''):
    """(key, frame) for every frame in an additional_data dict, one level of nesting (unit_risk is a dict of frames)"""
    out = []
    for k, v in add.items():
        if isinstance(v, dict):
            out += [(prefix + k + '/' + k2, v2) for k2, v2 in v.items()]
        else:
            out.append((prefix + k, v))
    return out


def same_cells(a, b):
    if len(a) != len(b):
        return False
    for x, y in zip(a, b):
        if x[:2] != y[:2]:
            return False
        u, v = x[2], y[2]
        if isinstance(u, float) and isinstance(v, float) and u != u and v != v:
            continue
        if u != v:
            return False
    return True


def history(t):
    h = {}
    for m in t.strategy.members:
        for nm in ('_prices', '_values', '_positions', '_cash', '_fees'):
            ser = getattr(m, nm, None)
            if ser is None or not hasattr(ser, 'index'):
                continue
            for d in ser.index:
                if d <= t.strategy.now:
                    h['%s.%s@%s' % (m.full_name, nm, d)] = ser[d]
    return h


def same_history(run, h1, h2, label):
    run.check(sorted(h1) == sorted(h2), label + '/keys', '%d vs %d' % (len(h1), len(h2)))
    for k in h1:
        a, b = h1[k], h2.get(k)
        if isinstance(a, float) and a != a and isinstance(b, float) and b != b:
            continue
        run.check_near(a, b, EPS_MONEY, label, k)


class RandShim:
    def __init__(self, run, stream):
        self.run, self.stream, self.k = run, stream, 0

    def _next(self, lo, hi):
        name = 'rnd%d' % self.k
        self.k += 1
        if name not in self.stream:
            self.stream[name] = self.run.real(name, 0, 1)
        return self.stream[name]

    def uniform(self, a, b):
        u = self._next(0, 1)
        return a + (b - a) * u

    def sample(self, pop, n):
        pop = list(pop)
        out = []
        for _ in range(n):
            u = self._next(0, 1)
            # index = floor(u * len(pop)) without a symbolic floor: compare against the grid points
            idx = len(pop) - 1
            for j in range(len(pop) - 1):
                if bool(u < (j + 1) / float(len(pop))):
                    idx = j
                    break
            out.append(pop.pop(idx))
        return out

    def shuffle(self, x):
        return None

    def __getattr__(self, k):
        import random
        return getattr(random, k)


def mkdata(run, cfg, tag):
    dts = dates(4)
    data = frame(run, dts, ['a', 'b', 'c'], lambda i, c: run.real('%s_p3%s' % (tag, c), 1, 300) if (i == 3 and cfg.get('symlast', 1)) else PR[c][i] * (1.0 if tag == 'A' else 1.25))
    add = {}
    if cfg['kind'] in ('active', 'active_random'):
        add['cd'] = pd.DataFrame({'date': [dts[1]]}, index=['c'])
        add['rating'] = frame(run, dts, ['a', 'b', 'c'], lambda i, c: {'a': 2.0, 'b': 2.0, 'c': 3.0}[c])
    if cfg['kind'] == 'risk':
        add['unit_risk'] = {'r1': frame(run, dts, ['a', 'b'], lambda i, c: {'a': 1.5, 'b': -0.5}[c] + 0.25 * i)}
    if cfg['kind'].startswith('ties'):
        add['rating'] = frame(run, dts, ['a', 'b', 'c'], lambda i, c: {'a': 2.0, 'b': 2.0, 'c': 1.0 + (i % 2)}[c])      # exact ties between a and b
    return dts, data, add


def h_isolation(run, cfg):
    B = bt()
    kind = cfg['kind']
    tpl = template(B, kind)
    fee = (lambda q, p: 0.001953125 * abs(q) * p) if cfg.get('fee') else None
    integer = bool(cfg.get('int', 0))
    before_tpl = snapshot(tpl)
    dA, dataA, addA = mkdata(run, cfg, 'A')
    dB, dataB, addB = mkdata(run, cfg, 'B')
    cA0, cB0 = cells(dataA), cells(dataB)
    addcells0 = {k: cells(v) for k, v in flat_add(addA) + flat_add(addB, 'B')}
    addcols0 = {k: list(v.columns) for k, v in flat_add(addA) + flat_add(addB, 'B')}
    addkeysA = sorted(addA)
    capA = float(cfg['cap']) if cfg.get('cap') else run.real('capA', 10 ** 4, 10 ** 7)
    capB = float(cfg['cap']) * 2 if cfg.get('cap') else run.real('capB', 10 ** 4, 10 ** 7)
    stream = {}
    import ffn.core as fc
    old_r, old_ar = fc.random, B.algos.random
    if kind == 'random':
        fc.random = RandShim(run, stream)
        B.algos.random = fc.random
    try:
        def mk(which):
            if which == 'A':
                return B.Backtest(tpl, dataA, initial_capital=capA, integer_positions=integer, commissions=fee, additional_data=addA or None)
            return B.Backtest(tpl, dataB, initial_capital=capB, integer_positions=integer, commissions=None, additional_data=addB or None)

        def runit(t):
            if kind == 'random':
                fc.random.k = 0            # every run sees the same stream from its start
            t.run()
        # reference: B alone
        ref = mk('B')
        runit(ref)
        href = history(ref)
        # A and B constructed up front from the same template, run in a solver-chosen order
        tA, tB = mk('A'), mk('B')
        order = run.choose('order', 2)
        for w in ((tA, tB) if order == 0 else (tB, tA)):
            try:
                runit(w)
            except ZeroDivisionError:
                run.end('zero-base')
        same_history(run, history(tB), href, 'run-independent-of-other-backtests-and-order')
        # template and inputs untouched
        after_tpl = snapshot(tpl)
        run.check(after_tpl == before_tpl, 'template-not-mutated', _diff(before_tpl, after_tpl))
        run.check(same_cells(cells(dataA), cA0) and same_cells(cells(dataB), cB0), 'input-data-not-mutated')
        run.check(sorted(addA) == addkeysA, 'additional-data-dict-not-mutated')
        for k, v in flat_add(addA) + flat_add(addB, 'B'):
            run.check(list(v.columns) == addcols0[k] and same_cells(cells(v), addcells0[k]), 'additional-data-frames-not-mutated', '%s columns %s' % (k, list(v.columns)))
        run.check(list(dataA.columns) == ['a', 'b', 'c'] and len(dataA.index) == 4, 'input-data-shape-kept')
        # run() again does not re-run
        hB = history(tB)
        n_before = tB.strategy.perm.get('n') if hasattr(tB.strategy, 'perm') else None
        tB.run()
        run.check((tB.strategy.perm.get('n') if hasattr(tB.strategy, 'perm') else None) == n_before, 'second-run-does-not-rerun-algos')
        same_history(run, history(tB), hB, 'second-run-changes-nothing')
    finally:
        fc.random, B.algos.random = old_r, old_ar


def _diff(a, b, path=''):
    if type(a) != type(b):
        return '%s: %r -> %r' % (path, a, b)
    if isinstance(a, dict):
        for k in set(a) | set(b):
            if a.get(k) != b.get(k):
                return _diff(a.get(k), b.get(k), path + '/' + str(k))
        return ''
    if isinstance(a, list):
        for i, (x, y) in enumerate(zip(a, b)):
            if x != y:
                return _diff(x, y, path + '[%d]' % i)
        return '%s: len %d -> %d' % (path, len(a), len(b)) if len(a) != len(b) else ''
    return '%s: %r -> %r' % (path, a, b) if a != b else ''


def perm_set_class(run, tagbox):
    """a set whose iteration order is a solver-chosen permutation (models hash-seed dependent ordering of str sets)"""
    class PermSet(object):
        def __init__(self, it=()):
            self._l = []
            for x in it:
                if x not in self._l:
                    self._l.append(x)

        def _order(self):
            n = len(self._l)
            if n <= 1:
                return list(self._l)
            perms = list(itertools.permutations(range(n)))
            tagbox['k'] += 1
            p = perms[run.choose('%s_perm%d' % (tagbox['tag'], tagbox['k']), len(perms))] if n <= 3 else perms[0]
            return [self._l[i] for i in p]

        def __iter__(self):
            return iter(self._order())

        def __len__(self):
            return len(self._l)

        def __contains__(self, x):
            return x in self._l

        def add(self, x):
            if x not in self._l:
                self._l.append(x)

        def intersection(self, *others):
            out = [x for x in self._l if all(x in o for o in others)]
            return PermSet(out)

        def union(self, *others):
            out = list(self._l)
            for o in others:
                for x in o:
                    if x not in out:
                        out.append(x)
            return PermSet(out)

        def difference(self, *others):
            return PermSet([x for x in self._l if not any(x in o for o in others)])

        def __sub__(self, o):
            return self.difference(o)

        def copy(self):
            return PermSet(self._l)

        __or__ = lambda s, o: s.union(o)
        __and__ = lambda s, o: s.intersection(o)
    return PermSet


def h_hashseed(run, cfg):
    """two runs of the same backtest under independent permutations of every set iteration inside bt must agree"""
    B = bt()
    kind = cfg['kind']
    dts, data, add = mkdata(run, dict(cfg, symlast=0), 'A')
    cap = run.real('cap', 10 ** 4, 10 ** 7)
    hs = []
    box = {'tag': 'r0', 'k': 0}
    PS = perm_set_class(run, box)
    old_c, old_a = B.core.__dict__.get('set'), B.algos.__dict__.get('set')
    B.core.set = PS
    B.algos.set = PS
    import ffn.core as fc
    old_r, old_ar = fc.random, B.algos.random
    stream = {}
    if 'random' in kind:
        fc.random = RandShim(run, stream)          # one fixed RNG stream, seen from its start by both runs
        B.algos.random = fc.random
    try:
        for r in range(2):
            box['tag'], box['k'] = 'r%d' % r, 0
            if 'random' in kind:
                fc.random.k = 0
            t = B.Backtest(template(B, kind), data, initial_capital=cap, integer_positions=False, additional_data=add or None)
            t.run()
            hs.append(history(t))
    finally:
        fc.random, B.algos.random = old_r, old_ar
        for mod, old in ((B.core, old_c), (B.algos, old_a)):
            if old is None:
                del mod.set
            else:
                mod.set = old
    same_history(run, hs[0], hs[1], 'result-independent-of-set-iteration-order')


HARNESSES = {'isolation': h_isolation, 'hashseed': h_hashseed}
WITNESS_CAP = {'quick': 100, 'thorough': 250}

SCRIPT = '''
import sys, json, warnings
warnings.filterwarnings('ignore')
sys.path.insert(0, %r)
sys.dont_write_bytecode = True
import importlib.util, importlib.machinery
class F:
    def find_spec(self, name, path, target=None):
        if name == 'bt.core':
            p = %r + '/bt/core.py'
            return importlib.util.spec_from_file_location(name, p, loader=importlib.machinery.SourceFileLoader(name, p))
sys.meta_path.insert(0, F())
import bt, pandas as pd, random
dts = pd.date_range('2010-01-04', periods=6)
cols = ['k%%d' %% i for i in range(8)]
data = pd.DataFrame({c: [100.0 + (i * 7 + j * 3) %% 11 for j in range(6)] for i, c in enumerate(cols)}, index=dts)
rating = pd.DataFrame({c: [float(i %% 2)] * 6 for i, c in enumerate(cols)}, index=dts)
A = bt.algos
out = {}
for name, s in (('declared', bt.Strategy('s', [A.RunDaily(), A.SelectAll(), A.SetStat('rating'), A.SelectN(2), A.WeighEqually(), A.Rebalance()], cols)),
                ('undeclared', bt.Strategy('s', [A.RunDaily(), A.SelectAll(), A.SetStat('rating'), A.SelectN(3, filter_selected=True), A.WeighEqually(), A.Rebalance()]))):
    random.seed(7)
    t = bt.Backtest(s, data, additional_data={'rating': rating}, integer_positions=True, commissions=lambda q, p: abs(q) * 0.01)
    t.run()
    out[name] = [round(float(x), 9) for x in t.strategy.prices.values] + [sorted(t.positions.columns[(t.positions != 0).any()])]
print(json.dumps(out))
'''


def extra_checks(tier, seed):
    repo = os.environ.get('BT_REPO', '/repo')
    outs = {}
    for hs in ('0', '1', '2', '3'):
        p = subprocess.run(['/venv/bin/python', '-c', SCRIPT % (repo, repo)], env=dict(os.environ, PYTHONHASHSEED=hs, PYTHONDONTWRITEBYTECODE='1'),
                           stdout=subprocess.PIPE, stderr=subprocess.PIPE, text=True, timeout=300)
        if p.returncode != 0:
            return [dict(name='hashseed-subprocesses', status='error', detail=p.stderr[-400:])]
        outs[hs] = p.stdout.strip().splitlines()[-1]
    if len(set(outs.values())) != 1:
        os.makedirs('/verif/replays/C11', exist_ok=True)
        path = '/verif/replays/C11/hashseed-subprocesses.json'
        json.dump(dict(property='C11', script=SCRIPT % (repo, repo), outputs=outs), open(path, 'w'), indent=1)
        return [dict(name='hashseed-subprocesses', status='violation', replay=path, detail='results differ across PYTHONHASHSEED 0..3')]
    return [dict(name='hashseed-subprocesses', status='ok', seeds=4)]


def plan(tier):
    quick = tier == 'quick'
    opts = dict(max_paths=3000, timeout_ms=10000)
    tasks = []
    for kind in ('stateful', 'nested', 'ties', 'random', 'risk'):
        tasks.append(dict(harness='isolation', cfg=dict(kind=kind, symlast=0), opts=opts))
        if not quick:
            tasks.append(dict(harness='isolation', cfg=dict(kind=kind, symlast=0, fee=1, int=1, cap=123456.0), opts=opts))
    tasks.append(dict(harness='isolation', cfg=dict(kind='stateful', symlast=0, fee=1), opts=opts))
    for kind in ('ties', 'ties_filter', 'stateful', 'active', 'active_random'):
        tasks.append(dict(harness='hashseed', cfg=dict(kind=kind), opts=opts))
    tasks.append(dict(harness='isolation', cfg=dict(kind='active', symlast=0), opts=opts))
    return tasks
