"""Operation-sequence machinery shared by C01 / C02 / C07 / C08: trees, symbolic operations, ghost bookkeeping.

A configuration fixes the tree shape, position mode, cost model and the *sequence of operation kinds*; every
numeric argument (capital, amounts, quantities) is symbolic.  All reads go through bt's public properties."""
from harness.common import EPS_MONEY, bt, dates, fee_fn, frame

PRICES = {'a': [100.0, 105.0, 95.0, 101.5], 'b': [37.5, 33.0, 41.25, 40.0], 'c': [10.0, 11.0, 12.5, 9.75]}
# variant with a price that is exactly zero on two consecutive dates and then recovers (held positions must stay on the books)
PRICES_Z = {'a': [100.0, 105.0, 95.0, 101.5], 'b': [37.5, 0.0, 0.0, 40.0], 'c': [10.0, 0.0, 0.0, 9.75]}
MULT = {'a': 1.0, 'b': 10.0, 'c': 0.5}
SPREAD = {'a': 0.5, 'b': 0.25, 'c': 0.125}
PRICES_ZA = {'a': [100.0, 0.0, 0.0, 101.5], 'b': [37.5, 33.0, 41.25, 40.0], 'c': [10.0, 11.0, 12.5, 9.75]}
COUPON = [0.5, 0.25, 0.0, 0.75]
COST_LONG = [0.125, 0.0625, 0.125, 0.0]
COST_SHORT = [0.0625, 0.25, 0.0, 0.125]


class World:
    pass


def build(run, cfg):
    """cfg: shape S1|S1L|S3|S4, int 0/1, fee [kind, par]|['uf'], spread 0/1, ndates"""
    B = bt()
    C = B.core
    nd = cfg.get('ndates', 3)
    dts = dates(nd)
    shape = cfg['shape']
    mult = MULT if cfg.get('mult', 1) else {k: 1.0 for k in MULT}

    def sec(n):
        return C.SecurityBase(n, multiplier=mult[n])
    if shape == 'S1':
        tickers = ['a', 'b']
        root = C.StrategyBase('root', [sec('a'), sec('b')])
    elif shape == 'S1L':                       # lazily created children (strings)
        tickers = ['a', 'b']
        root = C.StrategyBase('root', ['a', 'b'])
    elif shape == 'S3':
        tickers = ['a', 'b', 'c']
        sub = C.StrategyBase('sub', [sec('a'), sec('b')])
        root = C.StrategyBase('root', [sub, sec('c')])
    elif shape == 'S4':
        tickers = ['a']
        root = C.StrategyBase('root', [C.StrategyBase('sub1', [sec('a')]), C.StrategyBase('sub2', [sec('a')])])
    elif shape == 'F1':                        # fixed-income root: par-notional security, hedge security, plain security
        tickers = ['a', 'b', 'c']
        root = C.FixedIncomeStrategy('root', children=[C.FixedIncomeSecurity('a', multiplier=mult['a']), C.HedgeSecurity('b', multiplier=mult['b']),
                                                      C.Security('c', multiplier=mult['c'])])
    elif shape == 'SC':                        # a coupon-paying security and a plain one under a market-value root
        tickers = ['a', 'b']
        root = C.StrategyBase('root', [C.CouponPayingSecurity('a', multiplier=mult['a']), sec('b')])
    elif shape == 'S5':                        # three levels: root -> mid -> leaf -> a ; root also holds c
        tickers = ['a', 'c']
        leaf = C.StrategyBase('leaf', [sec('a')])
        mid = C.StrategyBase('mid', [leaf])
        root = C.StrategyBase('root', [mid, sec('c')])
    else:
        raise ValueError(shape)
    PG = PRICES_Z if cfg.get('pgrid') == 'zero' else (PRICES_ZA if cfg.get('pgrid') == 'zeroa' else PRICES)
    data = frame(run, dts, tickers, lambda i, c: PG[c][i])
    root.use_integer_positions(bool(cfg['int']))
    w = World()
    w.fee_kind = cfg['fee'][0]
    w.fee_calls = []
    if w.fee_kind == 'uf':
        F = run.uf('fee', 2)

        def fee(q, p):
            v = F(q, p)
            if run.mode == 'sym':             # contract of a sane commission function: 0 <= F(q,p) <= |q| p / 4 + 100
                run.assume(v >= 0)
                run.assume(v <= abs(q) * p * 0.25 + 100)
            w.fee_calls.append((q, p, v))
            return v
        root.set_commissions(fee)
        w.fee = fee
    elif w.fee_kind != 'none':
        f0 = fee_fn(cfg['fee'][0], cfg['fee'][1])

        def fee(q, p):
            v = f0(q, p)
            w.fee_calls.append((q, p, v))
            return v
        root.set_commissions(fee)
        w.fee = fee
    else:
        w.fee = lambda q, p: 0.0
    kw = {}
    if cfg.get('spread'):
        kw['bidoffer'] = frame(run, dts, tickers, lambda i, c: SPREAD[c])
    if shape == 'SC':
        kw['coupons'] = frame(run, dts, ['a'], lambda i, c: COUPON[i])
        kw['cost_long'] = frame(run, dts, ['a'], lambda i, c: COST_LONG[i])
        kw['cost_short'] = frame(run, dts, ['a'], lambda i, c: COST_SHORT[i])
    root.setup(data, **kw)
    root.update(dts[0])
    w.root, w.dts, w.di, w.data, w.cfg, w.mult, w.tickers = root, dts, 0, data, cfg, mult, tickers
    w.spread_on = bool(cfg.get('spread'))
    w.B = B
    return w


def strategies(root):
    C = bt().core
    return [n for n in root.members if isinstance(n, C.StrategyBase)]


def securities(root):
    C = bt().core
    return [n for n in root.members if isinstance(n, C.SecurityBase)]


def node(w, path):
    n = w.root
    for p in path.split('/'):
        if p:
            n = n[p]
    return n


def sync(w):
    w.root.update(w.root.now)


def apply_op(run, w, k, op):
    """Apply operation `op` (a list) with fresh symbolic arguments tagged k.  Returns a dict describing it."""
    root = w.root
    kind = op[0]
    integer = bool(w.cfg['int'])
    info = dict(kind=kind)
    if kind == 'adjust':
        x = run.integer('x%d' % k, -10 ** 6, 10 ** 6) if integer else run.real('x%d' % k, -10 ** 6, 10 ** 6)
        root.adjust(x)
        info['flow'] = x
        if len(op) > 1:
            root[op[1]].weight           # ['adjust', child]: the first thing read after the flow is that child's weight (its clock may lag the root's)
    elif kind == 'adjust_nf':
        x = run.integer('x%d' % k, -10 ** 6, 10 ** 6) if integer else run.real('x%d' % k, -10 ** 6, 10 ** 6)
        root.adjust(x, flow=False)
        info['nonflow'] = x
    elif kind == 'alloc':            # parent.allocate(amount, child)
        x = run.integer('x%d' % k, -10 ** 6, 10 ** 6) if integer else run.real('x%d' % k, -10 ** 6, 10 ** 6)
        par = node(w, op[2]) if len(op) > 2 else root
        par.allocate(x, op[1])
        info['amount'] = x
    elif kind == 'transact':
        q = run.integer('q%d' % k, -10 ** 4, 10 ** 4) if integer else run.real('q%d' % k, -10 ** 4, 10 ** 4)
        par = node(w, op[2]) if len(op) > 2 else root
        par.transact(q, op[1])
        info['q'] = q
    elif kind == 'transact_px':       # trade at a custom price (needs bid/offer data); op = ['transact_px', child, price, (parent path)]
        q = run.integer('q%d' % k, -10 ** 4, 10 ** 4) if integer else run.real('q%d' % k, -10 ** 4, 10 ** 4)
        par = node(w, op[3]) if len(op) > 3 else root
        par._create_child_if_needed(op[1]) if hasattr(par, '_create_child_if_needed') else None
        par[op[1]].transact(q, price=op[2])
        info['q'] = q
        info['px'] = op[2]
    elif kind == 'rebal':
        par = node(w, op[3]) if len(op) > 3 else root
        par.rebalance(op[2], op[1])
    elif kind == 'rebal_base':       # ['rebal_base', child, weight, base]: rebalance against an explicit base (no value read beforehand)
        root.rebalance(op[2], op[1], base=op[3])
    elif kind == 'close':
        par = node(w, op[2]) if len(op) > 2 else root
        if op[1] in par.children:
            par.close(op[1])
    elif kind == 'flatten':
        par = node(w, op[1]) if len(op) > 1 else root
        par.flatten()
    elif kind == 'update':
        root.update(root.now)
    elif kind == 'next':
        if w.di + 1 < len(w.dts):
            sync(w)                    # the clock is only advanced from a synced tree (as Backtest.run does)
            w.di += 1
            root.update(w.dts[w.di])
            info['moved'] = True
    elif kind == 'read':
        for n in root.members:
            n.value, n.weight, n.price
    elif kind == 'read_w':
        # the first thing looked at after a change is the WEIGHT of the deepest / last nodes (possibly securities whose own clock lags the root's)
        if len(op) > 1:
            root[op[1]].weight
        else:
            for n in reversed(root.members):
                n.weight
    else:
        raise ValueError(kind)
    return info


def do_ops(run, w, ops, after=None, start=0):
    """Run the configured operations; bt exceptions end the path as 'raised' (judged by C05/C10, not here)."""
    ops = [['next']] * int(w.cfg.get('lead_next', 0)) + list(ops) + [['next']] * int(w.cfg.get('tail_next', 0))
    for k, op in enumerate(ops):
        try:
            info = apply_op(run, w, start + k, op)
            if w.cfg.get('leaf_first'):
                # observation order: the deepest nodes are looked at first, the root last
                w.leaf_first = [(n, n.value) for n in sorted(w.root.members, key=lambda n: -n.full_name.count('>'))]
            w.root.value    # force the lazy refresh so that exceptions of the update surface here
        except Exception as e:
            run.note('raised', repr(e)[:120])
            run.end('raised')
        if after is not None:
            after(k, op, info)


def fund(run, w, prior=True, solvent=True, ghost=None):
    """Initial capital and (optionally) an arbitrary prior portfolio, established through real transact calls."""
    try:
        if ghost is not None:
            ghost.before()
        _fund(run, w, prior)
        if ghost is not None:
            ghost.after(None, {'flow': w.cap})
    except Exception as e:
        run.note('raised', repr(e)[:120])
        run.end('raised-in-setup')


def _fund(run, w, prior=True):
    integer = bool(w.cfg['int'])
    # solvent configurations: capital so large that no sequence within the bounds can drive the root through zero, so the
    # bankruptcy / zero-base branches are infeasible there; they are explored by the solvent=0 configurations
    lo, hi = (10 ** 7, 2 * 10 ** 7) if w.cfg.get('solvent', 1) else (0, 10 ** 7)
    if w.cfg.get('capgrid'):
        cap = 15000000.0      # concrete capital: keeps `amount * weight` products linear in nested trees
    else:
        cap = run.integer('cap', lo, hi) if integer else run.real('cap', lo, hi)
    w.root.adjust(cap)
    w.cap = cap
    if prior:
        shape = w.cfg['shape']
        pos = {}
        gridsub = w.cfg.get('gridsub', 1)
        GPOS = {'a': 200.0, 'b': -30.0, 'c': 40.0}
        for s in strategies(w.root):
            if s is not w.root:
                # capital reaches a sub-strategy through allocate
                if gridsub:
                    amt = 50000.0 if s.name != 'sub2' else 80000.0
                else:
                    amt = run.integer('sub_' + s.name, 0, 10 ** 6) if integer else run.real('sub_' + s.name, 0, 10 ** 6)
                if s.name == 'leaf':
                    amt = 20000.0
                s.parent.allocate(amt, s.name)
        for par in strategies(w.root):
            names = list(par.children.keys()) + list(par._lazy_children.keys())
            for nme in names:
                if nme in par.children and not hasattr(par.children[nme], 'multiplier'):
                    continue
                tag = 'pos_%s_%s' % (par.name, nme)
                if w.cfg.get('subcash') and par is not w.root:
                    continue               # sub-strategies hold cash only
                if par is w.root and nme in (w.cfg.get('prior_fixed') or {}):
                    q = w.cfg['prior_fixed'][nme]          # e.g. a security that is never held
                elif gridsub and par is not w.root:
                    # concrete prior inside sub-strategies: `amount * child weight` stays linear in the symbolic amount
                    q = GPOS[nme] if par.name != 'sub2' else 75.0
                else:
                    q = run.integer(tag, -10 ** 3, 10 ** 3) if integer else run.real(tag, -10 ** 3, 10 ** 3)
                par.transact(q, nme)
                pos[tag] = q
        w.prior = pos
    sync(w)


# ----------------------------------------------------------------------------- oracles
def check_balance_sheet(run, w, tag=''):
    """C01 identities at every node, through public properties."""
    C = bt().core
    root = w.root
    root.value                                   # refresh first (capital has no stale check of its own)
    for n in root.members:
        if isinstance(n, C.StrategyBase):
            tot = n.capital
            for c in n.children.values():
                tot = tot + c.value
            run.check_near(n.value, tot, EPS_MONEY, 'strategy-value=cash+children' + tag, 'node %s' % n.full_name)
            v = n.value
            for c in n.children.values():
                if bool(abs(v) >= 1):          # weights are checked when |parent value| >= 1 currency unit, or exactly 0
                    run.check_near(c.weight * v, c.value, EPS_MONEY, 'weight=value/parent' + tag, 'node %s' % c.full_name)
                elif bool(v == 0):
                    run.check_near(c.weight, 0.0, 1e-9, 'weight-zero-when-parent-zero' + tag, 'node %s' % c.full_name)
        else:
            run.check_near(n.value, n.position * n.price * n.multiplier, EPS_MONEY, 'security-value=pos*price*mult' + tag, 'node %s' % n.full_name)
    # recorded rows at `now` equal the state
    now = root.now
    for n in root.members:
        if isinstance(n, C.StrategyBase):
            run.check_near(n.values[now], n.value, EPS_MONEY, 'row-value' + tag, n.full_name)
            run.check_near(n.cash[now], n.capital, EPS_MONEY, 'row-cash' + tag, n.full_name)
            run.check_near(n.notional_values[now], n.notional_value, EPS_MONEY, 'row-notional' + tag, n.full_name)
        else:
            run.check_near(n.values[now], n.value, EPS_MONEY, 'row-value' + tag, n.full_name)
            run.check_near(n.positions[now], n.position, 1e-9, 'row-position' + tag, n.full_name)
            run.check_near(n.notional_values[now], n.notional_value, EPS_MONEY, 'row-notional' + tag, n.full_name)


# ----------------------------------------------------------------------------- ghost bookkeeping (kept by the harness, independent of bt's rows)
class Ghost:
    """Per date: external flows / non-flow adjustments injected by the harness, and the trades observed as position deltas."""

    def __init__(self, w):
        self.w = w
        self.flows = {}        # date index -> sum of flow adjustments made on the root
        self.nonflows = {}
        self.trades = {}       # date index -> list of (security node, q, price, parent node)
        self.subflow = {}      # (strategy full_name, date index) -> known transfers from the parent (None once unknown)
        self.snap_pos = None

    def _add(self, d, k, v):
        d[k] = d.get(k, 0.0) + v

    def before(self):
        self.snap_pos = {id(s): (s, s.position) for s in securities(self.w.root)}

    def after(self, op, info):
        w = self.w
        di = w.di
        if 'flow' in info:
            self._add(self.flows, di, info['flow'])
        if 'nonflow' in info:
            self._add(self.nonflows, di, info['nonflow'])
        known = None
        if op is not None and op[0] == 'transact_px':
            par = node(w, op[3]) if len(op) > 3 else w.root
            known = par[op[1]]
            q = info['q']
            if abs(q) >= 1e-16:
                self.trades.setdefault(di, []).append((known, q, known.price, known.parent, op[2]))
        elif op is not None and op[0] == 'transact':
            # the harness knows this quantity exactly (a position delta would lose a 1e-16-sized trade in float64)
            par = node(w, op[2]) if len(op) > 2 else w.root
            known = par[op[1]]
            q = info['q']
            if abs(q) >= 1e-16:
                self.trades.setdefault(di, []).append((known, q, known.price, known.parent))
        for s in securities(w.root):
            if s is known:
                continue
            old = self.snap_pos.get(id(s), (s, 0.0))[1]
            q = s.position - old
            if bool(abs(q) >= 1e-16) if not isinstance(q, float) else abs(q) >= 1e-16:
                self.trades.setdefault(di, []).append((s, q, s.price, s.parent))

    def trade_cost(self, s, q, price, custom=None):
        """(outlay, fee, bidoffer) the harness expects for a trade of q at the market price (or at a custom price)"""
        w = self.w
        m = s.multiplier
        if custom is not None:
            bo = q * (custom - price) * m
            return q * custom * m, w.fee(q, custom * m), bo
        half = (SPREAD[s.name] * 0.5 * m) if w.spread_on else 0.0
        bo = abs(q) * half
        outlay = q * price * m + bo
        fee = w.fee(q, price * m)
        return outlay, fee, bo


def do_ops_ghost(run, w, ops, ghost, after=None, start=0):
    ops = [['next']] * int(w.cfg.get('lead_next', 0)) + list(ops) + [['next']] * int(w.cfg.get('tail_next', 0))
    for k, op in enumerate(ops):
        ghost.before()
        try:
            info = apply_op(run, w, start + k, op)
            w.root.value
        except Exception as e:
            run.note('raised', repr(e)[:120])
            run.end('raised')
        if w.root.bankrupt:
            run.end('bankrupt')            # liquidation trades are C16's subject
        ghost.after(op, info)
        if after is not None:
            after(k, op, info)


def node_of(root, path):
    n = root
    for p in path.split('/'):
        if p:
            n = n[p]
    return n
