"""C02 - value is conserved: day-over-day P&L attribution reconciles, and trading/moving capital costs only the explicit costs.

Per operation:  V_after - V_before = injected flow/non-flow amount - sum over the trades it caused of (commission + half-spread cost);
per date change: V_t - V_{t-1} = sum pos_{t-1} (p_t - p_{t-1}) m  + coupons_{t-1} - holding costs_{t-1};
and from the recorded series at the end: values[t] - values[t-1] = mark-to-market + flows_t + non-flows_t + carry_{t-1} - costs_t."""
import itertools

from harness import opslib as O
from harness.common import EPS_MONEY, bt

BOUNDS = {
    'quick': 'shapes S1, S3, SC (coupon-paying security under a market-value root, coupons/costs on a grid); 3-4 dates; arbitrary prior portfolio + K=2 '
             'operation sequences; fractional and whole-unit; commission uninterpreted F(q,p) (no sizing search) or 0.2% of notional; bid/offer on; '
             'whole Backtest.run over a user algo trading with update=False (5 scripts of security-level trades, closes and flows with symbolic amounts, '
             'with and without a final refresh by the algo)',
    'thorough': 'adds S4, S5 and K=3 on S1',
}
ASSUMPTIONS = ['paths on which the root goes bankrupt end (liquidation is C16)']


def carry(w, di):
    """coupons less holding costs accrued on date index di, from the end-of-day recorded positions and the input tables"""
    C = bt().core
    tot = 0.0
    for s in O.securities(w.root):
        if isinstance(s, C.CouponPayingSecurity):
            pos = s.positions[w.dts[di]]
            tot = tot + pos * O.COUPON[di]
            if bool(pos > 0):
                tot = tot - pos * O.COST_LONG[di]
            elif bool(pos < 0):
                tot = tot + pos * O.COST_SHORT[di]
    return tot


def h_conserve(run, cfg):
    w = O.build(run, cfg)
    g = O.Ghost(w)
    O.fund(run, w, prior=True, ghost=g)
    root = w.root
    if root.bankrupt:
        run.end('bankrupt')
    PG = O.PRICES_Z if cfg.get('pgrid') == 'zero' else O.PRICES
    state = {'v': root.value, 'ntr': len(g.trades.get(w.di, []))}

    def after(k, op, info):
        v1 = root.value
        if op[0] == 'next' and not info.get('moved'):
            pass
        elif op[0] == 'next':
            di = w.di
            mtm = 0.0
            for s in O.securities(root):
                mtm = mtm + s.positions[w.dts[di - 1]] * (PG[s.name][di] - PG[s.name][di - 1]) * s.multiplier
            run.check_near(v1 - state['v'], mtm + carry(w, di - 1), EPS_MONEY, 'date-change=mark-to-market+carry', 'to date %d' % di)
            state['ntr'] = 0
        else:
            tr = g.trades.get(w.di, [])
            cost = 0.0
            for tr1 in tr[state['ntr']:]:
                s, q, price, par = tr1[:4]
                o, f, b = g.trade_cost(s, q, price, tr1[4] if len(tr1) > 4 else None)
                cost = cost + f + b
            state['ntr'] = len(tr)
            run.check_near(v1 - state['v'], info.get('flow', 0.0) + info.get('nonflow', 0.0) - cost, EPS_MONEY, 'operation-costs-only-explicit-costs', repr(op))
        state['v'] = v1

    O.do_ops_ghost(run, w, cfg['ops'], g, after=after)
    O.sync(w)
    # recorded series
    for di in range(1, w.di + 1):
        mtm = 0.0
        for s in O.securities(root):
            mtm = mtm + s.positions[w.dts[di - 1]] * (PG[s.name][di] - PG[s.name][di - 1]) * s.multiplier
        cost = 0.0
        for tr1 in g.trades.get(di, []):
            s, q, price, par = tr1[:4]
            o, f, b = g.trade_cost(s, q, price, tr1[4] if len(tr1) > 4 else None)
            cost = cost + f + b
        run.check_near(root.values[w.dts[di]] - root.values[w.dts[di - 1]],
                       mtm + g.flows.get(di, 0.0) + g.nonflows.get(di, 0.0) + carry(w, di - 1) - cost, EPS_MONEY, 'recorded-values-reconcile', 'date %d' % di)


def h_backtest(run, cfg):
    """A whole Backtest.run over a user algo that trades without refreshing the tree (update=False everywhere): what the run records for
    every date must reconcile with the trades the algo made (the harness keeps its own book of them).  Scripts never close a child they traded
    earlier on the same date: close() sizes itself from the child's value, which update=False deliberately leaves unrefreshed (documented contract)."""
    B = bt()
    C = B.core
    from harness.common import dates, frame
    n = cfg.get('ndates', 4)
    dts = dates(n)
    P = {'a': [100.0, 105.0, 95.0, 101.5, 98.0], 'b': [37.5, 33.0, 41.25, 40.0, 42.5]}
    data = frame(run, dts, ['a', 'b'], lambda i, c: P[c][i])
    rate = 0.001953125
    script = cfg['script']                     # list of [date index, kind, ...]
    book = {'pos': {'a': 0.0, 'b': 0.0}, 'cash': None, 'fee': {}, 'flow': {}}
    args = {}

    class Trader(B.Algo):
        def __call__(self, target):
            i = list(dts).index(target.now)
            for k, step in enumerate(script):
                if step[0] != i:
                    continue
                kind = step[1]
                if kind == 't':
                    c = step[2]
                    q = args.setdefault(k, run.real('q%d' % k, -300, 300))
                    target[c].transact(q, update=False)
                elif kind == 'c':
                    c = step[2]
                    q = -book['pos'][c]
                    target.close(c, update=False)
                elif kind == 'adj':
                    x = args.setdefault(k, run.real('x%d' % k, -10000, 10000))
                    target.adjust(x, update=False)
                    book['cash'] = book['cash'] + x
                    book['flow'][i] = book['flow'].get(i, 0.0) + x
                    continue
                p = P[c][i]
                f = rate * abs(q) * p
                if not bool(abs(q) >= 1e-16):
                    continue
                book['pos'][c] = book['pos'][c] + q
                book['cash'] = book['cash'] - q * p - f
                book['fee'][i] = book['fee'].get(i, 0.0) + f
            if cfg.get('finish'):
                target.root.update(target.now)
            return True
    s = B.Strategy('s', [Trader()], [C.Security('a'), C.Security('b')])
    cap = run.real('cap', 10 ** 6, 10 ** 7)
    book['cash'] = cap
    t = B.Backtest(s, data, initial_capital=cap, integer_positions=False, commissions=lambda q, p: rate * abs(q) * p)
    snaps = {}
    orig_run = t.strategy.run

    def spy_run():
        orig_run()
        i = list(dts).index(t.strategy.now)
        snaps[i] = (dict(book['pos']), book['cash'])
    t.strategy.run = spy_run
    t.run()
    st = t.strategy
    if st.bankrupt:
        run.end('bankrupt')
    prev = None
    for i, d in enumerate(dts):
        pos, cash = snaps[i]
        val = cash + pos['a'] * P['a'][i] + pos['b'] * P['b'][i]
        run.check_near(st.values[d], val, EPS_MONEY, 'recorded-value=book', 'date %d' % i)
        run.check_near(st.cash[d], cash, EPS_MONEY, 'recorded-cash=book', 'date %d' % i)
        run.check_near(st.fees[d], book['fee'].get(i, 0.0), EPS_MONEY, 'recorded-fees=commissions-of-the-date', 'date %d' % i)
        run.check_near(st.flows[d], book['flow'].get(i, 0.0) + (cap if i == 0 else 0.0) * 0, EPS_MONEY, 'recorded-flows=injected', 'date %d' % i)
        for c in ('a', 'b'):
            run.check_near(st[c].positions[d], pos[c], 1e-9, 'recorded-position=book', '%s date %d' % (c, i))
        if prev is not None:
            ppos, pcash, pval = prev
            mtm = ppos['a'] * (P['a'][i] - P['a'][i - 1]) + ppos['b'] * (P['b'][i] - P['b'][i - 1])
            run.check_near(st.values[d] - st.values[dts[i - 1]], mtm + book['flow'].get(i, 0.0) - book['fee'].get(i, 0.0), EPS_MONEY,
                           'date-change=mark-to-market+flows-costs', 'date %d' % i)
        prev = (pos, cash, val)


HARNESSES = {'conserve': h_conserve, 'backtest': h_backtest}
WITNESS_CAP = {'quick': 120, 'thorough': 300}


def alphabet(shape):
    if shape in ('S1', 'SC'):
        return [['adjust'], ['adjust_nf'], ['alloc', 'a'], ['transact', 'b'], ['transact', 'a'], ['close', 'a'], ['flatten'], ['next'], ['rebal', 'b', 0.25]]
    from harness.C07 import alphabet as a7
    return a7(shape)


def plan(tier):
    from harness.C01 import _cfgs
    quick = tier == 'quick'
    opts = dict(max_paths=3000, timeout_ms=5000 if quick else 20000)
    tasks = []
    for shape in (['S1', 'SC', 'S3'] if quick else ['S1', 'SC', 'S3', 'S4', 'S5']):
        seqs = [s for s in itertools.product(alphabet(shape), repeat=2)]
        for integer in (0, 1):
            sel = seqs
            if quick:
                if shape == 'S1':
                    sel = seqs[integer::3]
                elif shape == 'SC':
                    sel = [s for s in seqs if any(op[0] == 'next' for op in s)] if not integer else seqs[2::9]
                else:
                    sel = seqs[integer::4] if not integer else seqs[1::9]
            for seq in sel:
                for cfg in _cfgs(shape, seq, integer, tier):
                    if shape == 'SC':
                        cfg.update(ndates=4, tail_next=1)
                    tasks.append(dict(harness='conserve', cfg=cfg, opts=opts))
    # custom-price trades on a security with a multiplier, and small same-date changes
    for seq in ((['transact_px', 'b', 36.0], ['next']), (['transact_px', 'b', 0.0], ['transact', 'b']), (['next'], ['transact_px', 'a', 99.0]), (['adjust'], ['adjust_nf']),
                (['adjust_nf'], ['adjust_nf'])):
        for fee in (['uf'], ['prop', 0.001953125]):
            cfg = dict(shape='S1', int=0, fee=fee, spread=1, ops=[list(o) for o in seq], mult=1)
            tasks.append(dict(harness='conserve', cfg=cfg, opts=opts))
    # zero-price episode (held position priced 0 on two consecutive dates, then recovering)
    for seq in ((['transact', 'b'], ['next']), (['next'], ['adjust']), (['next'], ['next'])):
        for integer in (0, 1):
            for cfg in _cfgs('S1', seq, integer, tier)[:1]:
                cfg.update(pgrid='zero', ndates=4, tail_next=2)
                tasks.append(dict(harness='conserve', cfg=cfg, opts=opts))
    # whole backtests over a user algo that never refreshes the tree itself
    for script in ([[1, 't', 'a']], [[0, 't', 'a'], [2, 'c', 'a']], [[1, 't', 'a'], [1, 't', 'b'], [3, 'adj']], [[0, 'adj'], [1, 't', 'b'], [2, 'c', 'b']], [[1, 't', 'b'], [2, 't', 'a'], [2, 'c', 'b']], [[3, 't', 'b']]):
        for finish in (0, 1):
            tasks.append(dict(harness='backtest', cfg=dict(script=script, finish=finish), opts=opts))
    if not quick:
        for seq in itertools.product(alphabet('S1'), repeat=3):
            for cfg in _cfgs('S1', seq, 0, tier)[:1]:
                tasks.append(dict(harness='conserve', cfg=cfg, opts=dict(max_paths=8000, timeout_ms=20000)))
    return tasks
