"""C13 - algo stacks short-circuit, run_always runs, temp resets, perm persists.

The real AlgoStack.__call__, Or, Not, Require, Strategy.run are executed with mock algos whose return values and run_always
markers (absent / True / False) are symbolic choices; the oracle is a reference interpreter written from the statement.
RunIfOutOfBounds runs on a real tree with symbolic positions / capital / tolerance against grid targets (long and short)."""
from harness.common import EPS_W, bt, dates, frame

BOUNDS = {
    'quick': 'AlgoStack of length <= 4 with symbolic return pattern and symbolic run_always marker per algo (absent/True/False), one level of nesting '
             '(inner stack of length 2 at any position); Or over <= 3 branches; Not; Require with item absent / None / present (non-empty, empty containers, falsy scalars) and both defaults; '
             'RunIfOutOfBounds on a 2-security tree with symbolic positions, capital and tolerance and grid targets incl. shorts; Strategy.run twice '
             'on a nested tree with logging algos',
    'added': 'RunIfOutOfBounds with a sub-strategy among the targets (symbolic allocation to it); Require on empty containers and falsy scalars',
    'thorough': 'AlgoStack length <= 6 (every return pattern x every run_always marker pattern: 64 x 729 paths at length 6), an inner stack at every position of stacks up to length 5',
}
ASSUMPTIONS = ['mock algos return Python bools; falsy non-bool returns are outside the claim']


class Mock:
    def __init__(self, run, name, log, marker):
        self.run = run
        self.name = name
        self.log = log
        if marker == 1:
            self.run_always = True
        elif marker == 2:
            self.run_always = False
        self.ret = None

    def __call__(self, target):
        self.log.append(self.name)
        if self.ret is None:
            self.ret = self.run.boolean('ret_' + self.name)
        return self.ret


def ref_stack(items, log, rets):
    """reference: items = list of ('algo', name, marker) | ('stack', [items]); returns truth value"""
    res = True
    for it in items:
        if res:
            if it[0] == 'algo':
                log.append(it[1])
                res = rets[it[1]]
            else:
                res = ref_stack(it[1], log, rets)
        elif it[0] == 'algo' and it[2] == 1:
            log.append(it[1])
    return res


def h_stack(run, cfg):
    B = bt()
    n = cfg['len']
    nest = cfg.get('nest')          # position of an inner stack of length 2, or None
    log = []
    mocks = {}

    def mk(name):
        marker = run.choose('marker_' + name, 3)
        m = Mock(run, name, log, marker)
        mocks[name] = m
        return m, ('algo', name, marker)
    algos, spec = [], []
    for i in range(n):
        if nest is not None and i == nest:
            a, sa = mk('n%da' % i)
            b, sb = mk('n%db' % i)
            algos.append(B.core.AlgoStack(a, b))
            spec.append(('stack', [sa, sb]))
        else:
            a, sa = mk('a%d' % i)
            algos.append(a)
            spec.append(sa)
    stack = B.core.AlgoStack(*algos)
    got = stack(object())
    rets = {k: m.ret for k, m in mocks.items()}
    # mocks that were never invoked have no return value; the reference must not need it
    rlog = []

    class Need(Exception):
        pass

    class R(dict):
        def __getitem__(self, k):
            v = dict.get(self, k)
            if v is None:
                raise Need(k)
            return v
    try:
        want = ref_stack(spec, rlog, R(rets))
    except Need as e:
        run.fail('stack-invocations', 'reference interpreter calls %s which bt never invoked; bt log %s' % (e, log))
    run.check(log == rlog, 'stack-invocations', 'bt invoked %s, reference %s (spec %s, returns %s)' % (log, rlog, spec, rets))
    run.check(bool(got) == bool(want), 'stack-result', 'bt returned %r, reference %r (spec %s, returns %s)' % (got, want, spec, rets))


def h_flow(run, cfg):
    B = bt()
    A = B.algos
    # Or: every branch runs, result is any()
    k = cfg.get('branches', 3)
    log = []
    ms = [Mock(run, 'o%d' % i, log, 0) for i in range(k)]
    got = A.Or(ms)(object())
    run.check(log == ['o%d' % i for i in range(k)], 'or-runs-every-branch', str(log))
    run.check(bool(got) == any(m.ret for m in ms), 'or-result')
    # Not
    m = Mock(run, 'neg', [], 0)
    run.check(bool(A.Not(m)(object())) == (not m.ret), 'not-inverts')
    # Require
    import types
    for if_none in (False, True):
        t = types.SimpleNamespace(temp={})
        seen = []

        def pred(x):
            seen.append(x)
            return run.boolean('pred_%s' % if_none)
        r = A.Require(pred, 'item', if_none)
        run.check(r(t) == if_none and not seen, 'require-absent-default')
        t.temp['item'] = None
        run.check(r(t) == if_none and not seen, 'require-none-default')
        # any entry that is present and not None goes to the predicate: non-empty and empty containers, falsy scalars
        for j, item in enumerate(([1, 2], [], {}, 0, 0.0, '', False)):
            del seen[:]
            t.temp['item'] = item
            got = r(t)
            run.check(len(seen) == 1 and seen[0] is item, 'require-applies-predicate-to-item', 'item %r if_none=%s' % (item, if_none))
            run.check(got == run.boolean('pred_%s' % if_none), 'require-result', 'item %r' % (item,))


def h_oob(run, cfg):
    B = bt()
    dts = dates(2)
    data = frame(run, dts, ['a', 'b'], lambda i, c: {'a': [100.0, 105.0], 'b': [37.5, 33.0]}[c][i])
    if cfg.get('nested'):
        # a sub-strategy is a child like any other: its weight is held against its target too
        kid = B.Strategy('kid', [], ['a'])
        s = B.Strategy('s', [], [kid, 'b'])
        s.use_integer_positions(False)
        s.setup(data)
        s.update(dts[0])
        s.adjust(1000000.0)
        s.allocate(run.real('xk', 0, 900000), 'kid')
        s.transact(run.real('pb', -3000, 3000), 'b')
    else:
        s = B.Strategy('s', [], ['a', 'b'])
        s.use_integer_positions(False)
        s.setup(data)
        s.update(dts[0])
        s.adjust(run.real('cap', 10 ** 5, 10 ** 6))
        s.transact(run.real('pa', -1000, 1000), 'a')
        s.transact(run.real('pb', -3000, 3000), 'b')
    s.update(dts[0])
    if s.bankrupt:
        run.end('bankrupt')
    run.assume(s.value >= 1000)
    tol = run.real('tol', 0, 2)
    targets = dict(cfg['targets'])
    s.temp = {'weights': dict(targets)}
    got = B.algos.RunIfOutOfBounds(0.0)
    got.tolerance = tol
    try:
        res = got(s)
    except Exception as e:
        run.fail('outofbounds-no-exception', repr(e))
    cond = False
    for name, t in targets.items():
        if name in s.children:
            w = s[name].weight
            c = abs(w - t) > tol * abs(t)
            cond = c if cond is False else (cond | c)
    if run.mode == 'sym':
        from symbt.sym import SymBool
        if isinstance(cond, SymBool):
            run.check(cond if res else ~cond, 'outofbounds-iff-deviation', 'returned %s' % res)
            return
    run.check(bool(res) == bool(cond), 'outofbounds-iff-deviation', 'returned %s' % res)


def h_oob_cash(run, cfg):
    """with temp['cash'] set the algo must still return a truth value (no exception)"""
    B = bt()
    dts = dates(2)
    data = frame(run, dts, ['a', 'b'], lambda i, c: {'a': [100.0, 105.0], 'b': [37.5, 33.0]}[c][i])
    s = B.Strategy('s', [], ['a', 'b'])
    s.use_integer_positions(False)
    s.setup(data)
    s.update(dts[0])
    s.adjust(run.real('cap', 10 ** 5, 10 ** 6))
    s.transact(run.real('pa', 1, 100), 'a')
    s.update(dts[0])
    s.temp = {'weights': {'a': s['a'].weight}, 'cash': 0.25}
    try:
        B.algos.RunIfOutOfBounds(0.5)(s)
    except Exception as e:
        run.fail('outofbounds-cash-no-exception', repr(e))
    run.check(True, 'outofbounds-cash-no-exception')


def h_strategy_run(run, cfg):
    B = bt()
    log = []
    real = set()

    class L(B.Algo):
        def __init__(self, name, ret):
            super().__init__()
            self.n = name
            self.ret = ret

        def __call__(self, target):
            if id(target) not in real:
                return self.ret          # the shadow (paper-trading) copy of a sub-strategy runs the same stack; not part of this check
            log.append((self.n, dict(target.temp), dict(target.perm)))
            target.temp['seen_' + self.n] = True
            target.perm['count'] = target.perm.get('count', 0) + 1
            return self.ret
    fail_parent = run.boolean('parent_stack_fails')
    kid1 = B.Strategy('k1', [L('k1', True)], ['a'])
    kid2 = B.Strategy('k2', [L('k2', True)], ['b'])
    par = B.Strategy('p', [L('p1', not fail_parent), L('p2', True)], [kid1, kid2])
    dts = dates(2)
    data = frame(run, dts, ['a', 'b'], lambda i, c: 100.0)
    real.update([id(par), id(par['k1']), id(par['k2'])])
    par.setup(data)
    par.update(dts[0])
    par.temp['junk'] = 1
    par.run()
    first = list(log)
    names = [e[0] for e in first]
    exp = ['p1'] + ([] if fail_parent else ['p2']) + ['k1', 'k2']
    run.check(names == exp, 'run-order-own-stack-then-each-child-once', '%s vs %s' % (names, exp))
    run.check(first[0][1] == {}, 'temp-empty-at-start', str(first[0][1]))
    del log[:]
    par.run()
    names2 = [e[0] for e in log]
    run.check(names2 == exp, 'run-order-second-run', str(names2))
    run.check(log[0][1] == {}, 'temp-reset-on-every-run', str(log[0][1]))
    run.check(log[0][2].get('count') == (1 if fail_parent else 2), 'perm-persists', str(log[0][2]))
    for e in log:
        if e[0] in ('k1', 'k2'):
            run.check(e[1] == {} and e[2].get('count') == 1, 'child-temp-perm-own', str(e))


HARNESSES = {'stack': h_stack, 'flow': h_flow, 'oob': h_oob, 'oob_cash': h_oob_cash, 'strategy_run': h_strategy_run}


def plan(tier):
    quick = tier == 'quick'
    tasks = []
    maxlen = 4 if quick else 6
    for n in range(1, maxlen + 1):
        tasks.append(dict(harness='stack', cfg=dict(len=n, nest=None), opts=dict(max_paths=200000)))
        for pos in (range(n) if (quick and n <= 3) or not quick else ()):
            if n <= (4 if quick else 5):
                tasks.append(dict(harness='stack', cfg=dict(len=n, nest=pos), opts=dict(max_paths=200000)))
    for k in (1, 2, 3):
        tasks.append(dict(harness='flow', cfg=dict(branches=k)))
    for targets in ([['a', 0.25], ['b', 0.5]], [['a', -0.25], ['b', 0.625]], [['a', 0.5], ['b', -0.125], ['zz', 0.25]], [['b', 0.375]]):
        tasks.append(dict(harness='oob', cfg=dict(targets=targets)))
    for targets in ([['kid', 0.5], ['b', 0.25]], [['kid', 0.25]], [['kid', 0.625], ['b', -0.0625]]):
        tasks.append(dict(harness='oob', cfg=dict(targets=targets, nested=1)))
    tasks.append(dict(harness='oob_cash', cfg={}))
    tasks.append(dict(harness='strategy_run', cfg={}))
    return tasks
