"""C07 - every strategy node's cash ledger reconciles with its recorded flows, outlays and fees.

Same operation-sequence machinery as C01.  The harness keeps its own ghost ledger (flows it injected, trades observed as
position deltas priced at the market price, commission function evaluated by the harness) and proves per node and date:
  cash[t] - cash[t-1] = flows[t] + non-flow adjustments[t] - sum(own securities' outlays[t]) - fees[t] - sum(sub-strategies' flows[t])
  outlays[t] (per security) = sum over its trades of q*p*m + |q|*spread/2*m ;  fees[t] (per parent) = sum F(q, p*m) ; root flows[t] = injected flows
  bidoffers_paid[t] = sum |q|*spread/2*m ;  nothing else is booked (cost probes of the sizing search leave no trace)."""
import itertools

from harness import opslib as O
from harness.common import EPS_MONEY, bt

BOUNDS = {
    'quick': 'shapes S1, S3; 3 dates; arbitrary prior portfolio + K=2 operation sequences (several trades per security per date, buys then sells, '
             'date changes in between); fractional and whole-unit; commission uninterpreted F(q,p) or 0.2% of notional when a sizing search runs; '
             'bid/offer on',
    'thorough': 'adds S4, K=3 on S1, per-share fee family',
}
ASSUMPTIONS = ['paths on which the root goes bankrupt end (liquidation is C16)', 'custom transaction prices are covered by the custom-price harness only']


def ledger(run, w, g):
    C = bt().core
    root = w.root
    root.value
    for n in O.strategies(root):
        for di in range(w.di + 1):
            d = w.dts[di]
            prev = n.cash[w.dts[di - 1]] if di > 0 else 0.0
            own_out = 0.0
            subs = 0.0
            for c in n.children.values():
                if isinstance(c, C.SecurityBase):
                    own_out = own_out + c.outlays[d]
                else:
                    subs = subs + c.flows[d]
            nf = g.nonflows.get(di, 0.0) if n is root else 0.0
            run.check_near(n.cash[d] - prev, n.flows[d] + nf - own_out - n.fees[d] - subs, EPS_MONEY, 'cash-ledger', '%s date %d' % (n.full_name, di))
    # recorded rows against the ghost
    for di in range(w.di + 1):
        d = w.dts[di]
        run.check_near(root.flows[d], g.flows.get(di, 0.0), EPS_MONEY, 'root-flows=injected', 'date %d' % di)
        per_sec = {}
        per_par = {}
        per_bo = {}
        for tr1 in g.trades.get(di, []):
            s, q, price, par = tr1[:4]
            o, f, b = g.trade_cost(s, q, price, tr1[4] if len(tr1) > 4 else None)
            per_sec[id(s)] = per_sec.get(id(s), 0.0) + o
            per_par[id(par)] = per_par.get(id(par), 0.0) + f
            per_bo[id(s)] = per_bo.get(id(s), 0.0) + b
        for s in O.securities(root):
            run.check_near(s.outlays[d], per_sec.get(id(s), 0.0), EPS_MONEY, 'outlay-row=trades', '%s date %d' % (s.full_name, di))
            if w.spread_on:
                run.check_near(s.bidoffers_paid[d], per_bo.get(id(s), 0.0), EPS_MONEY, 'bidoffer-row=trades', '%s date %d' % (s.full_name, di))
        for n in O.strategies(root):
            run.check_near(n.fees[d], per_par.get(id(n), 0.0), EPS_MONEY, 'fee-row=commission-of-trades', '%s date %d' % (n.full_name, di))
            if w.spread_on:
                # a strategy's bid/offer paid on a date is the sum over everything below it
                tot = 0.0
                for s in O.securities(n):
                    tot = tot + per_bo.get(id(s), 0.0)
                run.check_near(n.bidoffers_paid[d], tot, EPS_MONEY, 'strategy-bidoffer-row=sum-of-trades-below', '%s date %d' % (n.full_name, di))


def h_ledger(run, cfg):
    w = O.build(run, cfg)
    g = O.Ghost(w)
    O.fund(run, w, prior=True, ghost=g)
    if w.root.bankrupt:
        run.end('bankrupt')
    O.do_ops_ghost(run, w, cfg['ops'], g)
    O.sync(w)
    ledger(run, w, g)


def h_custom(run, cfg):
    """custom-price trades (bid/offer on): the difference to the market price is booked as bid/offer, commission at the custom price"""
    w = O.build(run, cfg)
    root = w.root
    cap = run.real('cap', 10 ** 7, 2 * 10 ** 7)
    root.adjust(cap)
    root.update(w.dts[0])
    a = root[cfg.get('sec', 'a')]
    q1 = run.real('q1', -10 ** 4, 10 ** 4)
    p1 = run.real('p1', 50, 150) if cfg.get('symprice') else 101.25
    q2 = run.real('q2', -10 ** 4, 10 ** 4)
    p2 = 0.0 if cfg.get('zero_price') else 98.5
    a.transact(q1, price=p1)
    a.transact(q2, price=p2)
    root.update(w.dts[0])
    if root.bankrupt:
        run.end('bankrupt')
    m = a.multiplier
    mkt = a.price
    d = w.dts[0]
    f1 = w.fee(q1, p1 * m) if bool(abs(q1) >= 1e-16) else 0.0
    f2 = w.fee(q2, p2 * m) if bool(abs(q2) >= 1e-16) else 0.0
    exp_out = q1 * p1 * m + q2 * p2 * m
    run.check_near(a.outlays[d], exp_out, EPS_MONEY, 'custom-outlay')
    run.check_near(a.bidoffers_paid[d], q1 * (p1 - mkt) * m + q2 * (p2 - mkt) * m, EPS_MONEY, 'custom-bidoffer')
    run.check_near(root.fees[d], f1 + f2, EPS_MONEY, 'custom-fee')
    run.check_near(root.capital, cap - exp_out - f1 - f2, EPS_MONEY, 'custom-cash')
    run.check_near(root.flows[d], cap, EPS_MONEY, 'custom-not-a-flow')


HARNESSES = {'ledger': h_ledger, 'custom': h_custom}
DECIMAL_REPLAYS = {'quick': 2, 'thorough': 4}      # witnesses also replayed on two-decimal inputs (solver models are dyadic: floats exact there)
WITNESS_CAP = {'quick': 120, 'thorough': 300}


def alphabet(shape):
    if shape == 'S1':
        return [['adjust'], ['adjust_nf'], ['alloc', 'a'], ['transact', 'b'], ['transact', 'a'], ['rebal', 'b', 0.25], ['close', 'b'], ['flatten'], ['next']]
    if shape == 'S3':
        return [['adjust'], ['alloc', 'sub'], ['alloc', 'c'], ['alloc', 'a', 'sub'], ['transact', 'b', 'sub'], ['rebal', 'sub', 0.25], ['close', 'sub'],
                ['flatten'], ['next'], ['transact', 'c'], ['flatten', 'sub']]
    if shape == 'S4':
        return [['adjust'], ['alloc', 'sub1'], ['transact', 'a', 'sub2'], ['rebal', 'sub2', 0.5], ['close', 'sub1'], ['flatten'], ['next'], ['alloc', 'a', 'sub1']]
    if shape == 'S5':
        return [['adjust'], ['alloc', 'leaf', 'mid'], ['alloc', 'mid'], ['transact', 'a', 'mid/leaf'], ['close', 'leaf', 'mid'], ['next'], ['alloc', 'a', 'mid/leaf']]
    raise ValueError(shape)


def plan(tier):
    from harness.C01 import _cfgs
    quick = tier == 'quick'
    opts = dict(max_paths=3000, timeout_ms=5000 if quick else 20000)
    tasks = []
    for shape in (['S1', 'S3', 'S5'] if quick else ['S1', 'S3', 'S4', 'S5']):
        seqs = list(itertools.product(alphabet(shape), repeat=2))
        for integer in (0, 1):
            sel = seqs
            if quick:
                sel = seqs[integer::2] if shape == 'S1' else (seqs[integer::3] if not integer else seqs[1::7])
                if integer and shape == 'S1':
                    sel = seqs[1::4]
            for seq in sel:
                for cfg in _cfgs(shape, seq, integer, tier):
                    tasks.append(dict(harness='ledger', cfg=cfg, opts=opts))
    if not quick:
        for seq in itertools.product(alphabet('S1'), repeat=3):
            for cfg in _cfgs('S1', seq, 0, tier)[:1]:
                tasks.append(dict(harness='ledger', cfg=cfg, opts=dict(max_paths=8000, timeout_ms=20000)))
    # sequences that must always be present: same-date round trips, redundant updates between trades, custom prices on a multiplier security
    must = [(['transact', 'a'], ['transact', 'a']), (['transact', 'b'], ['transact', 'b']), (['transact_px', 'b', 36.0], ['transact_px', 'b', 39.5]),
            (['transact_px', 'b', 36.0], ['next']), (['close', 'b'], ['update'], ['transact', 'a']), (['transact', 'b'], ['update'], ['close', 'b']),
            (['close', 'b'], ['update'], ['update'], ['transact', 'a'])]
    for seq in must:
        for fee in (['uf'], ['prop', 0.001953125]):
            cfg = dict(shape='S1', int=0, fee=fee, spread=1, ops=[list(o) for o in seq], mult=1)
            tasks.append(dict(harness='ledger', cfg=cfg, opts=opts))
    for fee in (['uf'], ['prop', 0.001953125]):
        for zp in (0, 1):
            tasks.append(dict(harness='custom', cfg=dict(shape='S1', int=0, fee=fee, spread=1, mult=1, zero_price=zp), opts=opts))
            tasks.append(dict(harness='custom', cfg=dict(shape='S1', int=0, fee=fee, spread=1, mult=1, zero_price=zp, sec='b'), opts=opts))
    return tasks
