"""C14 - selection algos select exactly the documented, tradable set.

The real algos run on symbolic object frames: every universe cell is a symbolic real in [-10, 1000] (so zero and negative prices occur) or
NaN according to a mask from a small catalogue (late listing, gap on the current date, never listed); the prior temp['selected'] is a
solver-chosen subset.  Oracle per ticker, proved both ways under the path condition: c in selected <=> spec_c."""
import pandas as pd

from harness.common import bt, dates, frame

BOUNDS = {
    'quick': '3 tickers x 4 dates, all cells symbolic, 4 NaN masks; SelectAll / SelectThese / SelectHasData / SelectWhere / SelectRandomly over all flag combinations, '
             'SelectN (n absolute 1..3 and fractional 0.5/0.34, asc/desc, all_or_none, filter_selected with a symbolic prior selection), StatTotalReturn and '
             'SetStat (lookback 1d/2d, lag 0/1d), SelectMomentum; name/type/status filters (SelectRegex, SelectTypes, SelectActive, ResolveOnTheRun) on enumerated '
             'configurations',
    'added': 'SelectTypes on a nested tree (own children only), with and without a prior selection',
    'thorough': '4 tickers x 5 dates',
}
ASSUMPTIONS = ['prices/stats in [-10, 1000]; ties in the ranking statistic allowed (either order accepted)']
NAN = float('nan')

MASKS = {
    'none': lambda i, c: False,
    'late': lambda i, c: c == 'c' and i <= 1,
    'gap_now': lambda i, c: c == 'b' and i == 3,
    'never': lambda i, c: c == 'c',
}


def world(run, cfg):
    B = bt()
    cols = list('abcd')[:cfg.get('nt', 3)]
    nd = cfg.get('nd', 4)
    dts = dates(nd)
    if cfg.get('gap'):
        # business-day style index with a weekend before the last date: now - 1 day is not an index date
        dts = pd.DatetimeIndex(['2010-01-06', '2010-01-07', '2010-01-08', '2010-01-11'][-nd:]) if nd <= 4 else pd.DatetimeIndex(['2010-01-05', '2010-01-06', '2010-01-07', '2010-01-08', '2010-01-11'])
    mask = MASKS[cfg.get('mask', 'none')]
    cells = {}

    def cell(i, c):
        if mask(i if nd == 4 else i - (nd - 4), c):
            return NAN
        v = run.real('p_%d_%s' % (i, c), -10, 1000)
        cells[(i, c)] = v
        return v
    data = frame(run, dts, cols, cell)
    s = B.Strategy('s', [], cols)
    s.setup(data)
    s.update(dts[0])
    s.adjust(1000.0)
    for i in range(nd):
        s.update(dts[i])
    s.temp = {}
    return B, s, data, dts, cols


def isnan(v):
    return isinstance(v, float) and v != v


def tradable(v, include_no_data, include_negative):
    """spec of the tradability filter for one current price"""
    if include_no_data:
        return True
    if isnan(v):
        return False
    if include_negative:
        return True
    return v > 0


def member_iff(run, name, selected, spec, label):
    got = name in list(selected)
    if run.mode == 'sym':
        from symbt.sym import SymBool
        if isinstance(spec, SymBool):
            run.check(spec if got else ~spec, label, 'ticker %s selected=%s' % (name, got))
            return
    run.check(bool(spec) == got, label, 'ticker %s selected=%s spec=%s' % (name, got, spec))


def prior_subset(run, cols):
    return [c for c in cols if run.boolean('prior_' + c)]


def h_basic(run, cfg):
    B, s, data, dts, cols = world(run, cfg)
    A = B.algos
    now = dts[-1]
    row = {c: data[c][now] for c in cols}
    nd, neg = bool(cfg.get('no_data', 0)), bool(cfg.get('negative', 0))
    algo = cfg['algo']
    if algo == 'SelectAll':
        A.SelectAll(include_no_data=nd, include_negative=neg)(s)
        for c in cols:
            member_iff(run, c, s.temp['selected'], tradable(row[c], nd, neg), 'selectall')
    elif algo == 'SelectThese':
        tick = cfg['tickers']
        A.SelectThese(tick, include_no_data=nd, include_negative=neg)(s)
        for c in cols:
            member_iff(run, c, s.temp['selected'], (c in tick) and tradable(row[c], nd, neg), 'selectthese')
    elif algo == 'SelectWhere':
        sig = pd.DataFrame({c: [bool((i + k) % 2) for i in range(len(dts))] for k, c in enumerate(cols)}, index=dts)
        if cfg.get('sig_nan'):
            # a signal with holes (e.g. a shifted rolling comparison): NaN is not True
            sig = sig.astype(object)
            sig.iloc[-1, 0] = float('nan')
            sig.iloc[-1, 1] = True
        if cfg.get('sig_missing_now'):
            sig = sig.iloc[:-1]
            s.temp['selected'] = ['keepme']
        A.SelectWhere(sig, include_no_data=nd, include_negative=neg)(s)
        if cfg.get('sig_missing_now'):
            run.check(s.temp['selected'] == ['keepme'], 'selectwhere-no-signal-row-leaves-selection')
        else:
            for c in cols:
                sv = sig[c][now]
                member_iff(run, c, s.temp['selected'], (sv is True or sv == True) and not isnan(sv) and tradable(row[c], nd, neg), 'selectwhere')
    elif algo == 'SelectRandomly':
        prior = prior_subset(run, cols)
        if cfg.get('with_prior', 1):
            s.temp['selected'] = list(prior)
        else:
            prior = list(cols)
        n = cfg.get('n')
        A.SelectRandomly(n=n, include_no_data=nd, include_negative=neg)(s)
        sel = list(s.temp['selected'])
        elig = 0
        for c in cols:
            ok = (c in prior) and tradable(row[c], nd, neg)
            if c in sel:
                # selected => eligible
                if run.mode == 'sym':
                    from symbt.sym import SymBool
                    if isinstance(ok, SymBool):
                        run.check(ok, 'selectrandomly-subset-of-tradable-prior', c)
                        ok = True
                    else:
                        run.check(bool(ok), 'selectrandomly-subset-of-tradable-prior', c)
                else:
                    run.check(bool(ok), 'selectrandomly-subset-of-tradable-prior', c)
            if bool(ok):
                elig += 1
        run.check(len(sel) == (elig if n is None else min(n, elig)), 'selectrandomly-size', 'selected %s eligible %d n %s' % (sel, elig, n))
        run.check(len(set(sel)) == len(sel), 'selectrandomly-distinct')
    elif algo == 'SelectHasData':
        lb, mc = cfg['lookback'], cfg['min_count']
        prior = None
        if cfg.get('with_prior'):
            prior = prior_subset(run, cols)
            s.temp['selected'] = list(prior)
        A.SelectHasData(lookback=pd.DateOffset(days=lb), min_count=mc, include_no_data=nd, include_negative=neg)(s)
        for c in cols:
            cnt = sum(0 if isnan(data[c][d]) else 1 for d in dts if d >= now - pd.DateOffset(days=lb))
            spec = (prior is None or c in prior) and cnt >= mc
            if spec:
                spec = tradable(row[c], nd, neg) if not nd else True
            member_iff(run, c, s.temp['selected'], spec, 'selecthasdata')
    else:
        raise ValueError(algo)


def h_rank(run, cfg):
    """SelectN on a symbolic statistic (SetStat / StatTotalReturn / SelectMomentum)"""
    B, s, data, dts, cols = world(run, cfg)
    A = B.algos
    now = dts[-1]
    src = cfg['stat']
    lag = cfg.get('lag', 0)
    t0 = now - pd.DateOffset(days=lag)
    prior = None
    if src == 'setstat':
        ok = A.SetStat(data, lag=pd.DateOffset(days=lag))(s)
        run.check(ok is True, 'setstat-returns-true-when-row-exists')
        stat_spec = {c: data[c][t0] for c in cols}
        if cfg.get('filter_selected'):
            prior = prior_subset(run, cols)
            s.temp['selected'] = list(prior)
    else:
        lb = cfg['lookback']
        A.SelectAll()(s)
        base = list(s.temp['selected'])
        if not base:
            run.end('nothing-tradable')
        try:
            if src == 'momentum':
                A.SelectMomentum(cfg['n'], lookback=pd.DateOffset(days=lb), lag=pd.DateOffset(days=lag), sort_descending=not cfg.get('asc', 0),
                                 all_or_none=bool(cfg.get('all_or_none', 0)))(s)
            else:
                A.StatTotalReturn(lookback=pd.DateOffset(days=lb), lag=pd.DateOffset(days=lag))(s)
        except ZeroDivisionError:
            run.end('zero-price-in-window')
        win = [d for d in dts if t0 - pd.DateOffset(days=lb) <= d <= t0]
        if not win:
            run.end('empty-window')
        stat_spec = {}
        for c in base:
            a, b = data[c][win[-1]], data[c][win[0]]
            stat_spec[c] = NAN if (isnan(a) or isnan(b)) else a / b - 1
        # the statistic itself
        st = s.temp['stat']
        for c in base:
            if isnan(stat_spec[c]):
                run.check(isnan(st[c]), 'stat-total-return', '%s should be NaN' % c)
            else:
                run.check_near(st[c], stat_spec[c], 1e-9, 'stat-total-return', c)
    if src != 'momentum':
        A.SelectN(cfg['n'], sort_descending=not cfg.get('asc', 0), all_or_none=bool(cfg.get('all_or_none', 0)), filter_selected=bool(cfg.get('filter_selected', 0)))(s)
    sel = list(s.temp['selected'])
    elig = [c for c in stat_spec if not isnan(stat_spec[c]) and (prior is None or c in prior)]
    n = cfg['n']
    keep = n if n >= 1 else int(n * len(elig))
    want_len = min(keep, len(elig))
    if cfg.get('all_or_none') and len(elig) < keep:
        want_len = 0
    run.check(len(sel) == want_len, 'selectn-count', 'selected %s eligible %s keep %s' % (sel, elig, keep))
    run.check(all(c in elig for c in sel) and len(set(sel)) == len(sel), 'selectn-from-eligible', str(sel))
    for a in sel:
        for b in elig:
            if b not in sel:
                if cfg.get('asc', 0):
                    run.check(stat_spec[a] <= stat_spec[b], 'selectn-ranking', '%s vs %s' % (a, b))
                else:
                    run.check(stat_spec[a] >= stat_spec[b], 'selectn-ranking', '%s vs %s' % (a, b))


def h_names(run, cfg):
    """name / type / status filters (no numeric content beyond the tradability filter)"""
    B = bt()
    A = B.algos
    C = B.core
    dts = dates(3)
    cols = ['ab1', 'ab2', 'xy1', 'otr']
    data = frame(run, dts, cols, lambda i, c: run.real('p_%d_%s' % (i, c), -10, 1000))
    kids = [C.Security('ab1'), C.CouponPayingSecurity('ab2'), C.HedgeSecurity('xy1')]
    s = B.Strategy('s', [], kids)
    otr = pd.DataFrame({'alias': ['ab1', 'ab2', 'xy1']}, index=dts)
    s.setup(data, coupons=frame(run, dts, ['ab2'], lambda i, c: 0.0), otr=otr)
    for d in dts:
        s.update(d)
    now = dts[-1]
    prior = [c for c in ['ab1', 'ab2', 'xy1', 'zzz'] if run.boolean('prior_' + c)]
    s.temp = {'selected': list(prior)}
    A.SelectRegex('^ab')(s)
    run.check(list(s.temp['selected']) == [c for c in prior if c.startswith('ab')], 'selectregex', str(s.temp['selected']))
    s.temp = {'selected': list(prior)}
    A.SelectTypes(include_types=(C.SecurityBase,), exclude_types=(C.HedgeSecurity,))(s)
    run.check(sorted(s.temp['selected']) == sorted(c for c in prior if c in ('ab1', 'ab2')), 'selecttypes', str(s.temp['selected']))
    s.temp = {}
    A.SelectTypes(include_types=(C.CouponPayingSecurity,))(s)
    run.check(list(s.temp['selected']) == ['ab2'], 'selecttypes-no-prior', str(s.temp['selected']))
    s.temp = {'selected': list(prior)}
    s.perm = {'closed': {'ab1'}, 'rolled': {'xy1'}}
    A.SelectActive()(s)
    run.check(list(s.temp['selected']) == [c for c in prior if c not in ('ab1', 'xy1')], 'selectactive', str(s.temp['selected']))
    # ResolveOnTheRun: alias -> security of the date, tradability filter on the resolved name, other names kept
    others = [c for c in prior if c in ('ab1', 'zzz')]
    s.temp = {'selected': ['alias'] + others}
    A.ResolveOnTheRun('otr')(s)
    resolved = otr['alias'][now]            # 'xy1'
    v = data[resolved][now]
    got = list(s.temp['selected'])
    member_iff(run, resolved, got, v > 0, 'resolveontherun')
    run.check([c for c in got if c != resolved] == others and 'alias' not in got, 'resolveontherun-keeps-others', str(got))
    # type filter in a nested tree: only the strategy's own children are candidates, not the securities held by its sub-strategies
    kid = B.Strategy('kid', [], [C.Security('ab1'), C.HedgeSecurity('xy1')])
    top = B.Strategy('top', [], [kid, C.CouponPayingSecurity('ab2')])
    top.setup(data, coupons=frame(run, dts, ['ab2'], lambda i, c: 0.0))
    for d in dts:
        top.update(d)
    top.temp = {}
    A.SelectTypes(include_types=(C.SecurityBase,))(top)
    run.check(sorted(top.temp['selected']) == ['ab2'], 'selecttypes-own-children-only', str(top.temp['selected']))
    top.temp = {}
    A.SelectTypes(include_types=(C.StrategyBase,))(top)
    run.check(sorted(top.temp['selected']) == ['kid'], 'selecttypes-own-children-only', 'strategies: ' + str(top.temp['selected']))
    top.temp = {}
    A.SelectTypes(include_types=(C.Node,), exclude_types=(C.CouponPayingSecurity,))(top)
    run.check(sorted(top.temp['selected']) == ['kid'], 'selecttypes-own-children-only', 'all but coupon: ' + str(top.temp['selected']))


HARNESSES = {'basic': h_basic, 'rank': h_rank, 'names': h_names}
WITNESS_CAP = {'quick': 150, 'thorough': 400}


def plan(tier):
    quick = tier == 'quick'
    nt, nd = (3, 4) if quick else (4, 5)
    opts = dict(max_paths=20000, timeout_ms=10000)
    tasks = []
    flags = [(0, 0), (0, 1), (1, 0), (1, 1)]
    for mask in MASKS:
        for (a, b) in flags:
            base = dict(nt=nt, nd=nd, mask=mask, no_data=a, negative=b)
            tasks.append(dict(harness='basic', cfg=dict(base, algo='SelectAll'), opts=opts))
            tasks.append(dict(harness='basic', cfg=dict(base, algo='SelectThese', tickers=['a', 'c']), opts=opts))
            if mask in ('none', 'gap_now'):
                tasks.append(dict(harness='basic', cfg=dict(base, algo='SelectWhere'), opts=opts))
                tasks.append(dict(harness='basic', cfg=dict(base, algo='SelectRandomly', n=2), opts=opts))
            for lb, mc in ((1, 2), (2, 2), (3, 4)):
                if (a, b) == (1, 1) and lb != 2:
                    continue
                tasks.append(dict(harness='basic', cfg=dict(base, algo='SelectHasData', lookback=lb, min_count=mc, with_prior=int(lb == 2)), opts=opts))
    tasks.append(dict(harness='basic', cfg=dict(nt=nt, nd=nd, mask='none', algo='SelectWhere', sig_missing_now=1), opts=opts))
    tasks.append(dict(harness='basic', cfg=dict(nt=nt, nd=nd, mask='late', algo='SelectRandomly', n=None, with_prior=0), opts=opts))
    tasks.append(dict(harness='basic', cfg=dict(nt=nt, nd=nd, mask='none', algo='SelectRandomly', n=5), opts=opts))
    for mask in ('none', 'late', 'gap_now'):
        for n in (1, 2, 3, 0.5, 0.34):
            for asc in (0, 1):
                for aon in (0, 1):
                    if quick and aon and asc:
                        continue
                    tasks.append(dict(harness='rank', cfg=dict(nt=nt, nd=nd, mask=mask, stat='setstat', lag=0, n=n, asc=asc, all_or_none=aon, filter_selected=1), opts=opts))
        for lb in (1, 2):
            for lag in (0, 1):
                tasks.append(dict(harness='rank', cfg=dict(nt=nt, nd=nd, mask=mask, stat='totalreturn', lookback=lb, lag=lag, n=2, asc=0), opts=opts))
                tasks.append(dict(harness='rank', cfg=dict(nt=nt, nd=nd, mask=mask, stat='momentum', lookback=lb, lag=lag, n=1, asc=lag), opts=opts))
        tasks.append(dict(harness='rank', cfg=dict(nt=nt, nd=nd, mask=mask, stat='setstat', lag=1, n=2, asc=0), opts=opts))
        for lb in (3, 4):
            for lag in (1, 2):
                tasks.append(dict(harness='rank', cfg=dict(nt=nt, nd=nd, mask=mask, stat='totalreturn', lookback=lb, lag=lag, n=2, asc=0, gap=1), opts=opts))
                tasks.append(dict(harness='rank', cfg=dict(nt=nt, nd=nd, mask=mask, stat='momentum', lookback=lb, lag=lag, n=1, asc=0, gap=1), opts=opts))
        tasks.append(dict(harness='basic', cfg=dict(nt=nt, nd=nd, mask=mask, no_data=0, negative=0, algo='SelectWhere', sig_nan=1), opts=opts))
        tasks.append(dict(harness='basic', cfg=dict(nt=nt, nd=nd, mask=mask, no_data=0, negative=0, algo='SelectHasData', lookback=3, min_count=2, with_prior=0, gap=1), opts=opts))
    tasks.append(dict(harness='names', cfg={}, opts=opts))
    return tasks
