"""bin/check entry point: plan -> parallel symbolic exploration -> concrete replays -> evidence -> exit code.

Exit codes: 0 property held on everything explored (known findings printed); 1 reproduced violation not listed in
known_findings.json; 3 harness error (vacuous harness, counterexample that does not replay, internal error)."""
import hashlib
import importlib
import json
import multiprocessing as mp
import os
import shutil
import subprocess
import sys
import tempfile
import time
import warnings

VERIF = os.path.dirname(os.path.dirname(os.path.abspath(__file__)))
REPO = os.environ.get('BT_REPO', '/repo')
NPROC = int(os.environ.get('VERIF_NPROC', '16'))


def _worker(task):
    module, hname, cfg, opts = task
    from . import run as R
    from .loader import functions_seen
    try:
        st = R.explore(module, hname, cfg, **opts)
    except BaseException as e:  # never lose a task silently
        import traceback
        st = R.new_stats()
        st['errors'].append(dict(error='explorer crashed: %r' % (e,), tb=traceback.format_exc()[-1500:]))
        st['wall'] = 0.0
    st['functions'] = functions_seen()
    st['task'] = (module, hname, cfg)
    return st


def _init_worker():
    warnings.filterwarnings('ignore')


def load_known():
    p = os.path.join(VERIF, 'known_findings.json')
    if not os.path.exists(p):
        return []
    return json.load(open(p)).get('findings', [])


def _fl(v):
    from fractions import Fraction
    if isinstance(v, str) and '/' in v:
        return float(Fraction(v))
    return v


def match_known(known, pid, hname, cfg, viol):
    inp = {k: _fl(v) for k, v in viol['inputs'].items()}
    for k in known:
        if k.get('status') != 'known' or k.get('property') != pid:
            continue
        m = k.get('match', {})
        if m.get('harness') and m['harness'] != hname:
            continue
        if m.get('labels') and viol['label'] not in m['labels']:
            continue
        if m.get('where'):
            try:
                if not eval(m['where'], {'__builtins__': {'abs': abs, 'min': min, 'max': max, 'len': len, 'str': str, 'float': float, 'int': int, 'any': any, 'all': all}},
                            dict(cfg=cfg, inp=inp, label=viol['label'], detail=viol.get('detail', ''), notes=viol.get('notes', {}))):
                    continue
            except Exception:
                continue
        return k
    return None


def concrete_batch(records, compiled_dir=None, timeout=1800):
    """Run records through unshimmed bt in fresh interpreter(s); returns list of result dicts (same order)."""
    if not records:
        return []
    tmp = tempfile.mkdtemp(prefix='symbt_conc_')
    try:
        nshard = min(NPROC, max(1, len(records) // 8))
        procs = []
        for s in range(nshard):
            ip = os.path.join(tmp, 'in%d.jsonl' % s)
            op = os.path.join(tmp, 'out%d.jsonl' % s)
            with open(ip, 'w') as f:
                for r in records[s::nshard]:
                    f.write(json.dumps(r) + '\n')
            cmd = [sys.executable, '-m', 'symbt.concrete', ip, op]
            if compiled_dir:
                cmd += ['--compiled', compiled_dir]
            env = dict(os.environ, PYTHONPATH=VERIF, PYTHONDONTWRITEBYTECODE='1')
            procs.append((s, op, subprocess.Popen(cmd, cwd=VERIF, env=env, stdout=subprocess.PIPE, stderr=subprocess.STDOUT)))
        outs = {}
        for s, op, p in procs:
            try:
                so, _ = p.communicate(timeout=timeout)
            except subprocess.TimeoutExpired:
                p.kill()
                so = b'timeout'
            res = []
            if os.path.exists(op):
                res = [json.loads(l) for l in open(op)]
            n = len(records[s::nshard])
            while len(res) < n:
                res.append(dict(outcome='error', error='concrete runner died: ' + so.decode(errors='replace')[-400:]))
            outs[s] = res
        merged = [None] * len(records)
        for s in range(nshard):
            for j, r in enumerate(outs[s]):
                merged[s + j * nshard] = r
        return merged
    finally:
        shutil.rmtree(tmp, ignore_errors=True)


def _cvc5_one(txt):
    import cvc5
    t0 = time.time()
    try:
        slv = cvc5.Solver()
        slv.setOption('tlimit-per', '20000')
        slv.setLogic('ALL')
        ip = cvc5.InputParser(slv)
        ip.setStringInput(cvc5.InputLanguage.SMT_LIB_2_6, txt + '\n(check-sat)\n', 'q')
        sm = ip.getSymbolManager()
        res = None
        while True:
            cmd = ip.nextCommand()
            if cmd.isNull():
                break
            out = cmd.invoke(slv, sm)
            if 'sat' in str(out):
                res = str(out).strip()
        return res or 'unknown', time.time() - t0
    except Exception as e:
        return 'error:' + repr(e)[:80], time.time() - t0


def second_opinion(samples):
    out = dict(sampled=len(samples), agree=0, unknown=0, disagree=0, seconds=0.0, disagreements=[])
    ctxmp = mp.get_context('fork')
    with ctxmp.Pool(min(NPROC, max(1, len(samples)))) as pool:
        for smp, (res, dt) in zip(samples, pool.map(_cvc5_one, [x['smt2'] for x in samples], chunksize=1)):
            out['seconds'] += dt
            if res == 'unsat':
                out['agree'] += 1
            elif res == 'sat':
                out['disagree'] += 1
                out['disagreements'].append(smp['label'])
            else:
                out['unknown'] += 1
    out['seconds'] = round(out['seconds'], 1)
    return out


def build_compiled():
    """Cythonize the working tree's core.py in a scratch copy; returns the directory (caller removes it)."""
    d = tempfile.mkdtemp(prefix='symbt_build_')
    files = subprocess.check_output(['git', '-C', REPO, 'ls-files'], text=True).split('\n')
    for f in files:
        if not f or f.startswith('docs/') or f.startswith('examples/') or f.startswith('tests/'):
            continue
        src = os.path.join(REPO, f)
        if not os.path.isfile(src):
            continue
        dst = os.path.join(d, f)
        os.makedirs(os.path.dirname(dst), exist_ok=True)
        shutil.copy2(src, dst)
    p = subprocess.run([sys.executable, 'setup.py', 'build_ext', '--inplace'], cwd=d, stdout=subprocess.PIPE, stderr=subprocess.STDOUT, text=True)
    ok = p.returncode == 0 and any(f.startswith('core.') and f.endswith('.so') for f in os.listdir(os.path.join(d, 'bt')))
    if not ok:
        shutil.rmtree(d, ignore_errors=True)
        return None, p.stdout[-2000:]
    shutil.rmtree(os.path.join(d, 'build'), ignore_errors=True)
    return d, ''


def main(argv):
    t_start = time.time()
    warnings.filterwarnings('ignore')
    pid = argv[0]
    if '--replay' in argv:
        return replay_file(pid, argv[argv.index('--replay') + 1])
    tier = argv[1] if len(argv) > 1 else os.environ.get('VERIF_TIER', 'quick')
    seed = int(os.environ.get('VERIF_SEED', '0') or 0)
    sys.path.insert(0, VERIF)
    from .loader import load_bt, start_function_monitor
    bt = load_bt()
    from . import shims
    shims.install(bt)
    start_function_monitor()
    mod = importlib.import_module('harness.' + pid)
    plan = mod.plan(tier)
    tasks = []
    for t in plan:
        opts = dict(t.get('opts', {}))
        opts.setdefault('seed', seed)
        cfgx = dict(t['cfg'])
        if tier == 'thorough':
            cfgx.setdefault('second_opinion', 2)          # per task: proved non-trivial obligations re-discharged with cvc5
        tasks.append(('harness.' + pid, t['harness'], cfgx, opts))
    if seed:
        import random
        random.Random(seed).shuffle(tasks)
    print('[%s %s] %d symbolic tasks on %d workers (repo %s)' % (pid, tier, len(tasks), NPROC, REPO), flush=True)
    results = []
    ctxmp = mp.get_context('fork')
    deadline = t_start + float(os.environ.get('VERIF_DEADLINE_S', getattr(mod, 'DEADLINE_S', {}).get(tier, 900 if tier == 'quick' else 5400)))
    pool = ctxmp.Pool(min(NPROC, max(1, len(tasks))), initializer=_init_worker)
    killed = 0
    try:
        it = pool.imap_unordered(_worker, tasks, chunksize=1)
        for _ in range(len(tasks)):
            try:
                results.append(it.next(timeout=max(1.0, deadline - time.time())))
            except mp.TimeoutError:
                killed = len(tasks) - len(results)
                break
    finally:
        pool.terminate()
        pool.join()
    if killed:
        done = {json.dumps(r['task'], sort_keys=True, default=str) for r in results}
        from . import run as R
        for t in tasks:
            if json.dumps((t[0], t[1], t[2]), sort_keys=True, default=str) not in done:
                st = R.new_stats()
                st['incomplete'] = True
                st['wall'] = 0.0
                st['functions'] = []
                st['task'] = (t[0], t[1], t[2])
                st['killed'] = True
                results.append(st)
        print('[%s %s] wall-clock deadline reached: %d task(s) stopped and counted as incomplete' % (pid, tier, killed), flush=True)
    # optional extra (non-path) checks of the harness module, e.g. CrossHair runs or calendar validation
    extra = []
    if hasattr(mod, 'extra_checks'):
        extra = mod.extra_checks(tier, seed) or []

    # ---- second opinion (thorough): re-discharge a sample of proved obligations with cvc5; a disagreement is a harness error
    second = dict(sampled=0, agree=0, unknown=0, disagree=0, seconds=0.0)
    smt = [x for st in results for x in st.get('smt2_samples', [])]
    if smt:
        import random as _r
        _r.Random(seed).shuffle(smt)
        second = second_opinion(smt[:int(os.environ.get('VERIF_SECOND_OPINION_MAX', '150'))])
    known = load_known()
    agg = dict(paths=0, completed=0, decisions=0, queries=0, tsolve=0.0, unknown=0, obligations=0, discharged=0, trivial=0,
               undecided=0, thin=0, unsupported=0, bound_exceeded=0, infeasible=0, reach=0, incomplete=0, maxdeg=0, errors=[],
               ended={}, unsupported_msgs=[])
    functions = set()
    samples = []
    viol_recs = []     # (task, viol, known entry or None)
    witness_recs = []
    vac = []
    per_harness = {}
    for st in results:
        module, hname, cfg = st['task']
        ph = per_harness.setdefault(hname, dict(tasks=0, paths=0, obligations=0, discharged=0, violations=0, wall=0.0, queries=0))
        ph['tasks'] += 1
        if not st.get('killed'):
            ph['finished'] = ph.get('finished', 0) + 1
        ph['paths'] += st['paths']
        ph['obligations'] += st['obligations']
        ph['discharged'] += st['discharged']
        ph['violations'] += len(st['violations'])
        ph['wall'] += st.get('wall', 0.0)
        ph['queries'] += st['queries']
        for k in ('paths', 'completed', 'decisions', 'queries', 'tsolve', 'unknown', 'obligations', 'discharged', 'trivial', 'unsupported',
                  'bound_exceeded', 'infeasible'):
            agg[k] += st[k]
        agg['undecided'] += len(st['undecided'])
        agg['thin'] += len(st['thin'])
        agg['reach'] += st['reach_witnesses']
        agg['incomplete'] += 1 if st['incomplete'] else 0
        agg['maxdeg'] = max(agg['maxdeg'], st['maxdeg'])
        for k, v in st['ended'].items():
            agg['ended'][k] = agg['ended'].get(k, 0) + v
        for e in st['errors']:
            agg['errors'].append(dict(e, harness=hname, cfg=cfg))
        agg['unsupported_msgs'] += st['unsupported_msgs'][:2]
        functions.update(st.get('functions', []))
        if len(samples) < 8:
            samples += st['samples'][:1]
        for v in st['violations']:
            viol_recs.append(((module, hname, cfg), v, match_known(known, pid, hname, cfg, v)))
        for w in st['witnesses']:
            witness_recs.append(dict(module=module, harness=hname, cfg=cfg, inputs=w['inputs'], ufs=w['ufs'], deferred=bool(w.get('deferred'))))
    for hname, ph in per_harness.items():
        ph['allkilled'] = ph.get('finished', 0) == 0
        if ph['obligations'] == 0 and not ph.get('allkilled') and not getattr(mod, 'NO_OBLIGATION_OK', {}).get(hname):
            vac.append(hname)

    if os.environ.get('VERIF_DUMP'):
        json.dump([dict(harness=t[1], cfg=t[2], viol=v, known=(k or {}).get('id')) for t, v, k in viol_recs], open(os.environ['VERIF_DUMP'], 'w'), default=str)
    # ---- replay counterexamples on unshimmed bt
    sel = []
    cnt = {}
    for i, (task, v, k) in enumerate(viol_recs):
        key = (task[1], v['label'], k['id'] if k else None)
        cnt[key] = cnt.get(key, 0) + 1
        if cnt[key] <= (3 if k else 12):
            sel.append(i)
    recs = [dict(module=viol_recs[i][0][0], harness=viol_recs[i][0][1], cfg=viol_recs[i][0][2], inputs=viol_recs[i][1]['inputs'],
                 ufs=viol_recs[i][1]['ufs']) for i in sel]
    rep = concrete_batch(recs)
    confirmed_new, confirmed_known, unconfirmed = [], {}, []
    for i, r in zip(sel, rep):
        task, v, k = viol_recs[i]
        if r['outcome'] == 'violation':
            if k:
                confirmed_known.setdefault(k['id'], []).append((task, v, r))
            else:
                confirmed_new.append((task, v, r))
        else:
            (unconfirmed if not k else []).append((task, v, r))

    # ---- uncaught exceptions raised inside bt on a feasible path: if unshimmed bt raises the same exception type on the path's model,
    #      the property cannot hold there (no result at all) and it is reported as a violation; otherwise it stays an internal error
    exc_recs, exc_meta = [], []
    for e in agg['errors']:
        if e.get('inputs') is not None and e.get('in_bt'):
            exc_recs.append(dict(module='harness.' + pid, harness=e['harness'], cfg=e['cfg'], inputs=e['inputs'], ufs=e.get('ufs', {})))
            exc_meta.append(e)
    if exc_recs:
        for e, r in zip(exc_meta, concrete_batch(exc_recs)):
            if r['outcome'] == 'error' and e['etype'] in r.get('error', ''):
                v = dict(label='bt-raises-' + e['etype'], detail=e['error'], inputs=e['inputs'], ufs=e.get('ufs', {}), notes={})
                k = match_known(known, pid, e['harness'], e['cfg'], v)
                if k:
                    confirmed_known.setdefault(k['id'], []).append((('harness.' + pid, e['harness'], e['cfg']), v, r))
                else:
                    confirmed_new.append((('harness.' + pid, e['harness'], e['cfg']), v, r))
                e['confirmed_concretely'] = True
        agg['errors'] = [e for e in agg['errors'] if not e.get('confirmed_concretely')] if confirmed_new or confirmed_known else agg['errors']

    # ---- witness replays (one model per sampled completed path) on source and, when asked, the compiled build
    wcap = getattr(mod, 'WITNESS_CAP', {}).get(tier, 150)
    if len(witness_recs) > wcap:
        import random
        random.Random(seed).shuffle(witness_recs)
        # paths that handed their verdict to the concrete replay are replayed first (and all of them, up to 4x the cap)
        witness_recs.sort(key=lambda w: 0 if w.get('deferred') else 1)
        ndef = sum(1 for w in witness_recs if w.get('deferred'))
        witness_recs = witness_recs[:max(wcap, min(ndef, 4 * wcap))]
    wres = concrete_batch(witness_recs)
    w_ok = sum(1 for r in wres if r['outcome'] in ('ok', 'ended'))
    w_bad = [(w, r) for w, r in zip(witness_recs, wres) if r['outcome'] not in ('ok', 'ended')]
    # ---- decimal variants of the witnesses (harnesses without uninterpreted functions): IEEE rounding exposure on non-dyadic inputs
    dec_info = None
    ndec = int(os.environ.get('VERIF_DECIMAL', 0) or 0) or getattr(mod, 'DECIMAL_REPLAYS', {}).get(tier, 0)
    if ndec:
        drecs = []
        for w in witness_recs:
            if w.get('ufs'):
                continue
            for j in range(1, ndec + 1):
                drecs.append(dict(w, inputs=dict(w['inputs'], __decimal__=j)))
        dres = concrete_batch(drecs) if drecs else []
        d_bad = [(w, r) for w, r in zip(drecs, dres) if r['outcome'] == 'violation']
        dec_info = dict(variants_per_witness=ndec, replays=len(dres), ok=sum(1 for r in dres if r['outcome'] in ('ok', 'ended')),
                        violations=len(d_bad), errors=sum(1 for r in dres if r['outcome'] == 'error'))
        w_bad = w_bad + d_bad
    compiled_info = None
    if getattr(mod, 'COMPILED_REPLAY', {}).get(tier):
        cdir, log = build_compiled()
        if cdir is None:
            compiled_info = dict(built=False, log=log[-600:])
        else:
            try:
                cres = concrete_batch(witness_recs, compiled_dir=cdir)
                c_ok = sum(1 for r in cres if r['outcome'] in ('ok', 'ended'))
                c_bad = [(w, r) for w, r in zip(witness_recs, cres) if r['outcome'] not in ('ok', 'ended')]
                compiled_info = dict(built=True, replays=len(cres), ok=c_ok, bad=[dict(harness=w['harness'], cfg=w['cfg'], inputs=w['inputs'], result=r) for w, r in c_bad[:5]])
            finally:
                shutil.rmtree(cdir, ignore_errors=True)

    # a failing witness is a concrete violation of the oracle on the real code: treat like a counterexample
    for w, r in w_bad:
        if r['outcome'] == 'violation':
            v = dict(label=r['label'], detail=r.get('detail', ''), inputs=w['inputs'], ufs=w['ufs'], notes=r.get('notes', {}))
            k = match_known(known, pid, w['harness'], w['cfg'], v)
            if k:
                confirmed_known.setdefault(k['id'], []).append(((w['module'], w['harness'], w['cfg']), v, r))
            else:
                confirmed_new.append(((w['module'], w['harness'], w['cfg']), v, r))
    if compiled_info and compiled_info.get('built'):
        for b in compiled_info['bad']:
            if b['result']['outcome'] == 'violation':
                v = dict(label=b['result']['label'] + '@compiled', detail=b['result'].get('detail', ''), inputs=b['inputs'], ufs={}, notes={})
                confirmed_new.append((('harness.' + pid, b['harness'], b['cfg']), v, b['result']))

    # ---- report
    rdir = os.path.join(os.environ.get('VERIF_EVIDENCE_DIR') or VERIF, 'replays', pid)
    exit_code = 0
    lines = []
    os.makedirs(rdir, exist_ok=True)
    seen_files = set()
    for task, v, r in confirmed_new[:10]:
        body = dict(property=pid, module=task[0], harness=task[1], cfg=task[2], label=v['label'], inputs=v['inputs'], ufs=v['ufs'],
                    detail=v.get('detail', ''), concrete=r)
        h = hashlib.sha1(json.dumps(body, sort_keys=True, default=str).encode()).hexdigest()[:10]
        path = os.path.join(rdir, '%s-%s-%s.json' % (task[1], v['label'].replace('/', '_').replace(' ', '_')[:40], h))
        if path in seen_files:
            continue
        seen_files.add(path)
        json.dump(body, open(path, 'w'), indent=1, default=str)
        lines.append('VIOLATION property=%s replay=%s' % (pid, path))
        exit_code = 1
    for kid, lst in confirmed_known.items():
        k = [x for x in known if x.get('id') == kid][0]
        lines.append('KNOWN-FINDING: property=%s %s (%s; %d reproduced instance(s) this run)' % (pid, k['what'], kid, len(lst)))
    hard_errors = []
    if vac:
        hard_errors.append('vacuous harness(es): %s' % vac)
    if agg['errors']:
        hard_errors.append('%d internal error(s), first: %s' % (len(agg['errors']), json.dumps(agg['errors'][0], default=str)[:1500]))
    if agg['reach'] == 0 and agg['obligations'] > 0:
        hard_errors.append('no reachability witness')
    if unconfirmed and not confirmed_new:
        hard_errors.append('%d counterexample(s) did not reproduce on unshimmed bt, first: %s' % (
            len(unconfirmed), json.dumps(dict(harness=unconfirmed[0][0][1], cfg=unconfirmed[0][0][2], label=unconfirmed[0][1]['label'],
                                              inputs=unconfirmed[0][1]['inputs'], detail=unconfirmed[0][1].get('detail'), concrete=unconfirmed[0][2]), default=str)[:1500]))
    if second.get('disagree'):
        hard_errors.append('cvc5 finds sat where z3 proved unsat: %s' % second.get('disagreements')[:3])
    for e in extra:
        if e.get('status') == 'violation':
            lines.append('VIOLATION property=%s replay=%s' % (pid, e.get('replay', '')))
            exit_code = 1
        elif e.get('status') == 'known':
            lines.append('KNOWN-FINDING: property=%s %s' % (pid, e.get('what', '')))
        elif e.get('status') == 'error':
            hard_errors.append('extra check %s: %s' % (e.get('name'), e.get('detail')))
    if hard_errors and exit_code == 0:
        exit_code = 3

    wall = time.time() - t_start
    n_known_listed = sum(len(v) for v in confirmed_known.values())
    ev = dict(
        property_id=pid, tier=tier if tier in ('quick', 'thorough') else 'quick', seed=seed, level='model_checking',
        coverage=dict(
            states=max(agg['completed'], 0), transitions=max(agg['decisions'], 0),
            traces_validated_against_impl=w_ok + len(confirmed_new) + n_known_listed,
            samples=samples[:8] or [dict(note='no completed path')],
            paths_explored=agg['paths'], paths_completed=agg['completed'], paths_ended_early=agg['ended'],
            infeasible_prefixes=agg['infeasible'], unsupported_paths=agg['unsupported'], unsupported_examples=agg['unsupported_msgs'][:6],
            bound_exceeded_paths=agg['bound_exceeded'], incomplete_tasks=agg['incomplete'],
            obligations=agg['obligations'], discharged=agg['discharged'], discharged_trivially=agg['trivial'],
            undecided=agg['undecided'], thin_margin=agg['thin'], reachability_witnesses=agg['reach'],
            solver=dict(name='z3 ' + _z3v(), queries=agg['queries'], seconds=round(agg['tsolve'], 2), unknown=agg['unknown'], max_degree=agg['maxdeg']),
            symbolic_tasks=len(tasks), per_harness=per_harness, second_opinion_cvc5=second,
            functions_executed_symbolically=sorted(functions),
            witness_replays=dict(decimal_variants=dec_info, source_ok=w_ok, source_bad=[dict(harness=w['harness'], cfg=w['cfg'], inputs=w['inputs'], result=r) for w, r in w_bad[:5]], compiled=compiled_info),
            counterexamples=dict(found=len(viol_recs), replayed=len(sel), confirmed_new=len(confirmed_new), confirmed_known=n_known_listed,
                                 unconfirmed=len(unconfirmed)),
            bounds=getattr(mod, 'BOUNDS', {}).get(tier, ''), extra_checks=extra, harness_errors=hard_errors,
            exhaustive=False,
        ),
        assumptions=list(getattr(mod, 'ASSUMPTIONS', [])) + [
            'exact real arithmetic with bt\'s own tolerances; IEEE rounding is covered only by the witness replays',
            'shims of symbt/shims.py (np.isnan/isclose/abs/sign/sqrt, math.floor/ceil, object-dtype frames, calc_perf_stats no-op)',
        ],
        wall_s=round(wall, 2), violations=len(confirmed_new),
    )
    evdir = os.environ.get('VERIF_EVIDENCE_DIR') or os.path.join(VERIF, 'evidence')      # mutant-testing runs write elsewhere
    os.makedirs(evdir, exist_ok=True)
    json.dump(ev, open(os.path.join(evdir, pid + '.json'), 'w'), indent=1, default=str)
    print('[%s %s] paths=%d completed=%d obligations=%d discharged=%d undecided=%d thin=%d unsupported=%d incomplete=%d '
          'queries=%d solver=%.1fs unknown=%d witnesses ok=%d bad=%d wall=%.1fs' % (
              pid, tier, agg['paths'], agg['completed'], agg['obligations'], agg['discharged'], agg['undecided'], agg['thin'],
              agg['unsupported'], agg['incomplete'], agg['queries'], agg['tsolve'], agg['unknown'], w_ok, len(w_bad), wall), flush=True)
    for hname, ph in sorted(per_harness.items()):
        print('   %-22s tasks=%d paths=%d obligations=%d discharged=%d violations=%d cpu=%.0fs' % (
            hname, ph['tasks'], ph['paths'], ph['obligations'], ph['discharged'], ph['violations'], ph['wall']))
    slowest = sorted(results, key=lambda r: -r.get('wall', 0.0))[:4]
    for r in slowest:
        print('   slow task %.0fs paths=%d %s %s' % (r.get('wall', 0.0), r['paths'], r['task'][1], json.dumps(r['task'][2], default=str)[:220]))
    for r in results:
        if r.get('killed'):
            print('   KILLED task %s %s' % (r['task'][1], json.dumps(r['task'][2], default=str)[:300]))
    if agg['ended']:
        print('   paths ended early:', agg['ended'])
    if agg['unsupported_msgs']:
        print('   unsupported examples:', agg['unsupported_msgs'][:3])
    for w, r in w_bad[:3]:
        print('   WITNESS-MISMATCH', w['harness'], json.dumps(w['cfg'], default=str)[:200], json.dumps(w['inputs'])[:300], json.dumps(r)[:400])
    if compiled_info:
        print('   compiled build:', json.dumps(compiled_info)[:600])
    if second.get('sampled'):
        print('   second opinion (cvc5):', json.dumps({k: v for k, v in second.items() if k != 'disagreements'}))
    for e in extra:
        print('   extra:', json.dumps(e, default=str)[:400])
    for he in hard_errors:
        print('HARNESS-ERROR:', he)
    for l in lines:
        print(l)
    return exit_code


def _z3v():
    try:
        import z3
        return z3.get_version_string()
    except Exception:
        return '?'


def replay_file(pid, path):
    """Re-run one recorded counterexample on unshimmed bt built from the current tree (source and compiled)."""
    body = json.load(open(path))
    rec = dict(module=body['module'], harness=body['harness'], cfg=body['cfg'], inputs=body['inputs'], ufs=body.get('ufs'))
    r = concrete_batch([rec])[0]
    print('source build:', json.dumps(r)[:1500])
    code = 1 if r['outcome'] == 'violation' else (0 if r['outcome'] in ('ok', 'ended') else 3)
    if '--compiled' in sys.argv:
        cdir, log = build_compiled()
        if cdir:
            try:
                rc = concrete_batch([rec], compiled_dir=cdir)[0]
                print('compiled build:', json.dumps(rc)[:1500])
                if rc['outcome'] == 'violation':
                    code = 1
            finally:
                shutil.rmtree(cdir, ignore_errors=True)
    if code == 1:
        print('VIOLATION property=%s replay=%s' % (pid, path))
    return code


if __name__ == '__main__':
    sys.exit(main(sys.argv[1:]))
