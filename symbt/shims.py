"""Dispatching shims bound over the module globals np / math / pd of bt.core, bt.algos, bt.backtest.

Concrete arguments go to the real library, symbolic ones to exact definitions.  No line of bt is rewritten."""
import math
import operator

import numpy as np
import pandas as pd

from .sym import Sym, SymBool, Unsupported, lift


def _has_sym(x):
    if isinstance(x, (Sym, SymBool)):
        return True
    if isinstance(x, np.ndarray) and x.dtype == object:
        return any(isinstance(v, (Sym, SymBool)) for v in x.ravel())
    return False


class NpShim:
    def __getattr__(self, k):
        return getattr(np, k)

    def isnan(self, x):
        if isinstance(x, Sym):
            return False
        if isinstance(x, np.ndarray) and x.dtype == object:
            out = np.empty(x.shape, dtype=bool)
            for idx in np.ndindex(x.shape):
                v = x[idx]
                out[idx] = (not isinstance(v, Sym)) and v != v
            return out
        return np.isnan(x)

    def isclose(self, a, b, rtol=1e-05, atol=1e-08):
        if isinstance(a, Sym) or isinstance(b, Sym):
            return abs(a - b) <= (atol + rtol * abs(b))
        return np.isclose(a, b, rtol=rtol, atol=atol)

    def abs(self, x):
        if isinstance(x, Sym):
            return abs(x)
        if isinstance(x, (pd.Series, pd.DataFrame)) and _frame_has_obj(x):
            return x.map(lambda v: abs(v))
        return np.abs(x)

    def sign(self, x):
        if isinstance(x, Sym):
            return x.sign()
        return np.sign(x)

    def sqrt(self, x):
        if isinstance(x, Sym):
            return x.sqrt()
        return np.sqrt(x)

    def array(self, x, *a, **k):
        arr = np.array(x, *a, **k)
        if not a and 'dtype' not in k and arr.dtype.kind in 'fiu':
            arr = arr.astype(object)      # numeric arrays built inside bt may later receive symbolic reals (in-place +=)
        return arr

    @property
    def linalg(self):
        return _Linalg()


class _Linalg:
    """inverse / pseudo-inverse are computed by real numpy on concrete tables"""
    def __getattr__(self, k):
        return getattr(np.linalg, k)

    def _f(self, m):
        m = np.asarray(m)
        if m.dtype == object:
            if _has_sym(m):
                from .sym import Unsupported
                raise Unsupported('matrix inverse of a symbolic table')
            m = m.astype(float)
        return m

    def inv(self, m):
        return np.linalg.inv(self._f(m))

    def pinv(self, m):
        return np.linalg.pinv(self._f(m))


def _frame_has_obj(x):
    if isinstance(x, pd.Series):
        return x.dtype == object
    return any(dt == object for dt in x.dtypes)


class MathShim:
    def __getattr__(self, k):
        return getattr(math, k)

    def floor(self, x):
        return x.floor() if isinstance(x, Sym) else math.floor(x)

    def ceil(self, x):
        return x.ceil() if isinstance(x, Sym) else math.ceil(x)


class _Meta(type(pd.DataFrame)):
    def __instancecheck__(cls, x):
        return isinstance(x, pd.DataFrame)


def _mk_cmp(op):
    def f(self, other):
        arr = self.to_numpy(dtype=object)
        o = other.to_numpy(dtype=object) if hasattr(other, 'to_numpy') else None
        out = np.empty(arr.shape, dtype=bool)
        for idx in np.ndindex(arr.shape):
            a = arr[idx]
            b = o[idx] if o is not None else other
            if isinstance(a, float) and a != a:
                out[idx] = (op is operator.ne)
            elif isinstance(b, float) and b != b:
                out[idx] = (op is operator.ne)
            else:
                out[idx] = bool(op(a, b))
        return pd.DataFrame(out, index=self.index, columns=self.columns)
    return f


class ObjFrame(pd.DataFrame, metaclass=_Meta):
    """DataFrame whose numeric columns are object dtype so that cells can hold symbolic reals.
    Comparisons are elementwise truth values (each one a fork when symbolic)."""

    def __init__(self, *a, **k):
        super().__init__(*a, **k)
        for c in list(self.columns):
            try:
                col = pd.DataFrame.__getitem__(self, c)
            except Exception:
                continue
            if isinstance(col, pd.Series) and col.dtype != object and col.dtype != bool:
                pd.DataFrame.__setitem__(self, c, col.astype(object))

    @property
    def _constructor(self):
        return ObjFrame

    def __setitem__(self, key, value):
        if isinstance(value, (int, float, np.floating, np.integer)) and not isinstance(value, bool):
            value = pd.Series([value] * len(self.index), index=self.index, dtype=object)
        elif isinstance(value, pd.Series) and value.dtype != object and value.dtype != bool:
            value = value.astype(object)
        super().__setitem__(key, value)

    @property
    def loc(self):
        return _ObjLoc(self)

    __hash__ = None


class _ObjLoc:
    """.loc of an ObjFrame: a column created by assignment (bt adds a sub-strategy's price column to a universe this way) is object dtype"""

    def __init__(self, df):
        self._df = df
        self._loc = pd.DataFrame.loc.fget(df)

    def __getitem__(self, k):
        return self._loc[k]

    def __setitem__(self, k, v):
        df = self._df
        if isinstance(k, tuple) and len(k) == 2 and isinstance(k[1], str) and k[1] not in df.columns:
            pd.DataFrame.__setitem__(df, k[1], pd.Series([np.nan] * len(df.index), index=df.index, dtype=object))
            self._loc = pd.DataFrame.loc.fget(df)
        self._loc[k] = v

    def __call__(self, *a, **k):
        return self._loc(*a, **k)

    def __getattr__(self, a):
        return getattr(self._loc, a)


for _nm, _op in (('__ge__', operator.ge), ('__gt__', operator.gt), ('__lt__', operator.lt), ('__le__', operator.le),
                 ('__ne__', operator.ne), ('__eq__', operator.eq)):
    setattr(ObjFrame, _nm, _mk_cmp(_op))


class _MetaS(type(pd.Series)):
    def __instancecheck__(cls, x):
        return isinstance(x, pd.Series)


class ObjSeries(pd.Series, metaclass=_MetaS):
    """pd.Series(...) inside bt: numeric data becomes object dtype so that symbolic reals can be assigned into it"""
    def __new__(cls, *a, **k):
        ser = pd.Series(*a, **k)
        if ser.dtype != object and ser.dtype != bool and ser.dtype.kind in 'fiu':
            ser = ser.astype(object)
        return ser


class PdShim:
    DataFrame = ObjFrame
    Series = ObjSeries

    def __getattr__(self, k):
        return getattr(pd, k)

    def isnull(self, x):
        if isinstance(x, Sym):
            return False
        return pd.isnull(x)

    def to_datetime(self, x, *a, **k):
        if getattr(x, '_symdate', False):
            return x
        return pd.to_datetime(x, *a, **k)

    def Timestamp(self, x, *a, **k):
        if getattr(x, '_symdate', False):
            return x
        return pd.Timestamp(x, *a, **k)

    def DatetimeIndex(self, data=None, *a, **k):
        if data is not None and not isinstance(data, (str, bytes)):
            try:
                items = list(data)
            except TypeError:
                items = None
            if items and any(getattr(x, '_symdate', False) for x in items):
                from .symdate import SymIndex
                return SymIndex(items, known_sorted=False)
        return pd.DatetimeIndex(data, *a, **k)


def install(bt):
    """Rebind np / math / pd in bt's three modules (idempotent)."""
    nps, ms, pds = NpShim(), MathShim(), PdShim()
    bt.core.np = nps
    bt.core.math = ms
    bt.core.pd = pds
    bt.algos.np = nps
    bt.algos.pd = pds
    bt.backtest.np = nps
    bt.backtest.pd = pds
    # statistics of a finished run are not part of any property
    pd.Series.calc_perf_stats = lambda self: None
    return nps, ms, pds


def obj_frame(index, columns, fill=0.0):
    return ObjFrame(pd.DataFrame(index=index, columns=list(columns), data=fill).astype(object))
