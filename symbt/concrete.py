"""Concrete (unshimmed) executions of harnesses: replays of counterexamples and of path witnesses.

Usage: python -m symbt.concrete IN.jsonl OUT.jsonl [--compiled DIR]
Each input line: {"module":..., "harness":..., "cfg":..., "inputs":..., "ufs":...}; output line: run_concrete's dict."""
import json
import os
import sys
import warnings


def main(argv):
    inp, out = argv[0], argv[1]
    compiled = argv[argv.index('--compiled') + 1] if '--compiled' in argv else None
    sys.path.insert(0, os.path.dirname(os.path.dirname(os.path.abspath(__file__))))
    warnings.filterwarnings('ignore')
    from symbt.loader import load_bt
    bt = load_bt(compiled_dir=compiled)
    from symbt.run import run_concrete
    build = 'compiled' if compiled else 'source'
    with open(inp) as f, open(out, 'w') as g:
        for line in f:
            rec = json.loads(line)
            res = run_concrete(rec['module'], rec['harness'], rec['cfg'], rec['inputs'], rec.get('ufs'))
            res['build'] = build
            res['core_file'] = os.path.basename(bt.core.__file__)
            g.write(json.dumps(res) + '\n')
            g.flush()


if __name__ == '__main__':
    main(sys.argv[1:])
