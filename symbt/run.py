"""Harness-facing API (symbolic and concrete twins) and the path explorer.

A harness is `def h(run, cfg)`.  In symbolic mode `run.real(...)` returns a Sym and `run.check*` are proof
obligations discharged by the solver under the path condition; in concrete mode the same harness is executed on
plain floats on unshimmed bt with the inputs of a solver model, and `run.check*` are ordinary assertions."""
import importlib
import json
import os
import random
import sys
import time
import traceback
from fractions import Fraction

HARNESS_ERROR = 3


class PathEnd(BaseException):
    def __init__(self, kind, info=None):
        self.kind = kind
        self.info = info


class ConcreteViolation(BaseException):
    def __init__(self, label, detail=''):
        self.label = label
        self.detail = detail


def _fmt(x):
    if isinstance(x, Fraction):
        return float(x) if x.denominator != 1 else int(x)
    return x


# --------------------------------------------------------------------------- symbolic
class SymRun:
    mode = 'sym'

    def __init__(self, ctx, stats, cfg):
        self.ctx = ctx
        self.st = stats
        self.cfg = cfg
        self.notes = {}
        self._reach = False
        self.path_obl = 0

    # inputs
    def real(self, name, lo, hi):
        return self.ctx.real(name, lo, hi)

    def integer(self, name, lo, hi):
        return self.ctx.integer(name, lo, hi)

    def boolean(self, name):
        return bool(self.ctx.boolean(name))

    def choose(self, name, n):
        """symbolic choice in range(n) (forks)."""
        import z3
        if n <= 1:
            return 0
        z = z3.Int(name)
        self.ctx.inputs[name] = ('int', z, None)
        self.ctx._add(z >= 0)
        self.ctx._add(z <= n - 1)
        self.ctx.model = None
        for k in range(n - 1):
            if self.ctx.decide(z == k):
                return k
        return n - 1

    def uf(self, name, arity=2):
        return self.ctx.uf(name, arity)

    def date(self, name, ylo=1990, yhi=2040, intraday=True):
        from .symdate import SymTS
        return SymTS(name, ylo, yhi, self.ctx, intraday)

    def dayno(self, name, lo=0, hi=20000):
        from .symdate import SymDay
        return SymDay(name, lo, hi, self.ctx)

    def date_lt(self, a, b):
        """assume a < b"""
        self.ctx.assume(a < b)

    def sint(self, name, lo, hi):
        """small symbolic Python-int look-alike (Sym over an Int atom)"""
        return self.ctx.integer(name, lo, hi)

    def is_sym(self, x):
        from .sym import Sym
        return isinstance(x, Sym) and not x.is_concrete()

    # assumptions / obligations
    def assume(self, c):
        self.ctx.assume(c)

    def _reached(self):
        if not self._reach:
            self._reach = True
            self.st['reach_witnesses'] += 1

    def _violation(self, label, model, detail=''):
        inputs, ufs = self.ctx.model_inputs(model)
        self.notes = {k: self._eval_note(model, x) for k, x in self.notes.items()}
        v = dict(label=label, detail=str(detail)[:400], inputs={k: _ser(x) for k, x in inputs.items()},
                 ufs={k: [[[_ser(a) for a in args], _ser(r)] for args, r in tab] for k, tab in ufs.items()},
                 trace_len=len(self.ctx.trace), notes=_jsonable(self.notes))
        self.st['violations'].append(v)
        raise PathEnd('violation', v)

    def _eval_note(self, model, x):
        from .sym import Sym, _frac_of
        if isinstance(x, Sym):
            try:
                return float(_frac_of(model.eval(x.z(), model_completion=True)))
            except Exception:
                return repr(x)
        return x

    def check(self, cond, label, detail=''):
        """exact Boolean obligation."""
        from .sym import SymBool
        self._reached()
        self.st['obligations'] += 1
        self.path_obl += 1
        if isinstance(cond, SymBool):
            verdict, m = self.ctx.refute(cond)
        else:
            if bool(cond):
                self.st['discharged'] += 1
                self.st['trivial'] += 1
                return True
            import z3
            r = self.ctx.check()
            verdict, m = ('cex', self.ctx.solver.model()) if r == z3.sat else ('unknown', None)
            if verdict == 'cex' and self.cfg.get('lattice', True):
                m = self.ctx.lattice_model(z3.BoolVal(True)) or m
        if verdict == 'proved':
            self.st['discharged'] += 1
            return True
        if verdict == 'unknown':
            self.st['undecided'].append(label)
            return None
        m2 = None
        if isinstance(cond, SymBool) and self.cfg.get('lattice', True):
            import z3
            m2 = self.ctx.lattice_model(z3.Not(cond.t))
        self._violation(label, m2 or m, detail)

    def check_near(self, a, b, eps, label, detail=''):
        """|a - b| <= eps.  A counterexample must violate it with margin (2*eps) so that it survives float64."""
        return self._check_margin(lambda e: abs(a - b) <= e, eps, label, detail or 'lhs=%r rhs=%r' % (a, b))

    def check_le(self, a, b, eps, label, detail=''):
        """a <= b + eps."""
        return self._check_margin(lambda e: a <= b + e, eps, label, detail or 'lhs=%r rhs=%r' % (a, b))

    def _check_margin(self, mk, eps, label, detail):
        from .sym import SymBool
        import z3
        self._reached()
        self.st['obligations'] += 1
        self.path_obl += 1
        # abs() inside mk may fork; that is fine (each side is its own path)
        cond = mk(eps)
        if not isinstance(cond, SymBool):
            if bool(cond):
                self.st['discharged'] += 1
                self.st['trivial'] += 1
                return True
            strong = mk(2 * eps)
            if isinstance(strong, SymBool):
                raise AssertionError('mixed concrete/symbolic obligation')
            if bool(strong):
                self.st['thin'].append(label)
                return None
            r = self.ctx.check()
            if r != z3.sat:
                self.st['undecided'].append(label)
                return None
            m0 = self.ctx.solver.model()
            ml = self.ctx.lattice_model(z3.BoolVal(True)) if self.cfg.get('lattice', True) else None
            self._violation(label, ml or m0, detail)
        verdict, m = self.ctx.refute(cond)
        if verdict == 'proved':
            self.st['discharged'] += 1
            self._sample_for_second_opinion(cond, label)
            return True
        if verdict == 'unknown':
            self.st['undecided'].append(label)
            return None
        for k in (1000000, 1000, 2):
            strong = mk(k * eps)
            if not isinstance(strong, SymBool):
                if bool(strong):
                    continue
                self._violation(label, m, detail)
            v2, m2 = self.ctx.refute(strong)
            if v2 == 'cex':
                m3 = self.ctx.lattice_model(z3.Not(strong.t)) if self.cfg.get('lattice', True) else None
                self._violation(label, m3 or m2, detail)
            if v2 == 'unknown':
                self.st['undecided'].append(label)
                return None
        self.st['thin'].append(label)
        return None

    def _sample_for_second_opinion(self, cond, label):
        """keep a few proved non-trivial obligations as SMT-LIB text (path condition + negated goal); the driver re-discharges them with cvc5"""
        n = self.cfg.get('second_opinion', 0)
        if not n or len(self.st['smt2_samples']) >= n:
            return
        import z3
        try:
            s2 = z3.Solver()
            s2.add(self.ctx.solver.assertions())
            s2.add(z3.Not(cond.t))
            txt = s2.to_smt2()
            if len(txt) < 400000:
                self.st['smt2_samples'].append(dict(label=label, smt2=txt))
        except Exception:
            pass

    def fail(self, label, detail=''):
        """unconditional violation on this (feasible) path."""
        import z3
        self._reached()
        self.st['obligations'] += 1
        r = self.ctx.check()
        if r == z3.unsat:
            raise PathEnd('infeasible')
        if r != z3.sat:
            self.st['undecided'].append(label)
            raise PathEnd('undecided')
        m0 = self.ctx.solver.model()         # taken now: the lattice search below leaves the solver in whatever state its last query had
        m = self.ctx.lattice_model(z3.BoolVal(True)) if self.cfg.get('lattice', True) else None
        self._violation(label, m or m0, detail)

    def end(self, kind):
        """finish this path early with a named, counted outcome (e.g. 'raised')."""
        raise PathEnd(kind)

    def note(self, k, v):
        self.notes[k] = v


def _ser(x):
    if isinstance(x, Fraction):
        return '%d/%d' % (x.numerator, x.denominator) if x.denominator != 1 else x.numerator
    return x


def _unser(x):
    if isinstance(x, str) and '/' in x:
        return Fraction(x)
    return x


def _jsonable(o):
    try:
        json.dumps(o)
        return o
    except Exception:
        if isinstance(o, dict):
            return {str(k): _jsonable(v) for k, v in o.items()}
        if isinstance(o, (list, tuple)):
            return [_jsonable(v) for v in o]
        return repr(o)[:200]


# --------------------------------------------------------------------------- concrete
class ConcRun:
    mode = 'conc'

    def __init__(self, inputs, ufs, cfg):
        inputs = dict(inputs)
        # decimal variant j of a model: every real input is moved to a nearby two-decimal value (solver models sit on dyadic points, where float
        # arithmetic is exact; decimals expose IEEE rounding in the real code)
        self.decimal = int(inputs.pop('__decimal__', 0) or 0)
        self.inputs = {k: _unser(v) for k, v in inputs.items()}
        self.ufs = {k: [([float(_unser(a)) for a in args], float(_unser(r))) for args, r in tab] for k, tab in (ufs or {}).items()}
        self.cfg = cfg
        self.notes = {}
        self.checks = 0
        self.missing = []

    def real(self, name, lo, hi):
        if name in self.inputs:
            v = float(self.inputs[name])
            if self.decimal:
                j = self.decimal
                v2 = round(v * (1.0 + 0.0173 * j) + 0.0137 * j, 2)
                if float(lo) <= v2 <= float(hi):
                    return v2
            return v
        self.missing.append(name)
        return float(lo)

    def integer(self, name, lo, hi):
        if name in self.inputs:
            return int(self.inputs[name])
        self.missing.append(name)
        return int(lo)

    def boolean(self, name):
        if name in self.inputs:
            return bool(self.inputs[name])
        self.missing.append(name)
        return False

    def choose(self, name, n):
        if name in self.inputs:
            return int(self.inputs[name])
        self.missing.append(name)
        return 0

    def uf(self, name, arity=2):
        tab = self.ufs.get(name, [])

        def call(*args):
            best = None
            for a, r in tab:
                d = max(abs(float(x) - y) / (1.0 + abs(y)) for x, y in zip(args, a))
                if best is None or d < best[0]:
                    best = (d, r)
            if best is not None and best[0] < 1e-7:
                return best[1]
            return 0.0
        return call

    def is_sym(self, x):
        return False

    def date(self, name, ylo=1990, yhi=2040, intraday=True):
        import pandas as pd
        import datetime
        g = lambda k, dflt: int(self.inputs.get(name + k, dflt))
        return pd.Timestamp(datetime.date.fromordinal(g('_N', datetime.date(ylo, 1, 1).toordinal()))) + pd.Timedelta(seconds=g('_s', 0))

    def dayno(self, name, lo=0, hi=20000):
        import pandas as pd
        return pd.Timestamp('1990-01-01') + pd.Timedelta(days=int(self.inputs.get(name, lo)))

    def date_lt(self, a, b):
        if not a < b:
            raise PathEnd('assumption-false-in-replay')

    def sint(self, name, lo, hi):
        return int(self.inputs.get(name, lo))

    def assume(self, c):
        if not bool(c):
            raise PathEnd('assumption-false-in-replay')

    def check(self, cond, label, detail=''):
        self.checks += 1
        if not bool(cond):
            raise ConcreteViolation(label, detail)
        return True

    def check_near(self, a, b, eps, label, detail=''):
        self.checks += 1
        if not (abs(a - b) <= eps):
            raise ConcreteViolation(label, detail or 'lhs=%r rhs=%r' % (a, b))
        return True

    def check_le(self, a, b, eps, label, detail=''):
        self.checks += 1
        if not (a <= b + eps):
            raise ConcreteViolation(label, detail or 'lhs=%r rhs=%r' % (a, b))
        return True

    def fail(self, label, detail=''):
        self.checks += 1
        raise ConcreteViolation(label, detail)

    def end(self, kind):
        raise PathEnd(kind)

    def note(self, k, v):
        self.notes[k] = v


def run_concrete(module, hname, cfg, inputs, ufs):
    """One concrete execution of a harness.  Returns dict(outcome=ok|violation|ended|error, ...)."""
    mod = importlib.import_module(module)
    h = mod.HARNESSES[hname]
    run = ConcRun(inputs, ufs, cfg)
    try:
        h(run, cfg)
        return dict(outcome='ok', checks=run.checks, notes=_jsonable(run.notes), missing=run.missing)
    except ConcreteViolation as v:
        return dict(outcome='violation', label=v.label, detail=str(v.detail)[:400], checks=run.checks, notes=_jsonable(run.notes))
    except PathEnd as e:
        return dict(outcome='ended', kind=e.kind, checks=run.checks, missing=run.missing)
    except Exception as e:
        return dict(outcome='error', error=repr(e)[:400], tb=traceback.format_exc()[-1500:])


# --------------------------------------------------------------------------- explorer
def new_stats():
    return dict(paths=0, completed=0, infeasible=0, unsupported=0, bound_exceeded=0, ended={}, errors=[], queries=0,
                tsolve=0.0, unknown=0, obligations=0, discharged=0, trivial=0, undecided=[], thin=[], violations=[],
                reach_witnesses=0, maxdeg=0, maxdepth=0, decisions=0, witnesses=[], samples=[], incomplete=False, left=0,
                unsupported_msgs=[], smt2_samples=[])


def explore(module, hname, cfg, max_paths=200000, max_seconds=3600, timeout_ms=10000, seed=0, witness_cap=6,
            max_violations=60):
    """Depth-first exploration of all feasible paths of one harness configuration."""
    from .sym import Abort, BoundExceeded, Ctx, Infeasible, Unsupported
    mod = importlib.import_module(module)
    h = mod.HARNESSES[hname]
    st = new_stats()
    work = [[]]
    t0 = time.time()
    rnd = random.Random(seed)
    while work:
        if st['paths'] >= max_paths or time.time() - t0 > max_seconds or len(st['violations']) >= max_violations:
            st['incomplete'] = True
            break
        prefix = work.pop()
        ctx = Ctx(prefix, timeout_ms=timeout_ms, seed=seed)
        ctx.deg_limit = cfg.get('deg_limit', 3)
        ctx.maxdepth = cfg.get('maxdepth', 600)
        ctx.sliver_assume = bool(cfg.get('sliver_assume', 1))
        Ctx.cur = ctx
        run = SymRun(ctx, st, cfg)
        st['paths'] += 1
        done = False
        try:
            h(run, cfg)
            st['completed'] += 1
            done = True
        except PathEnd as e:
            if e.kind == 'infeasible':
                st['infeasible'] += 1
            else:
                st['ended'][e.kind] = st['ended'].get(e.kind, 0) + 1
                done = e.kind not in ('violation', 'undecided')
        except Infeasible:
            st['infeasible'] += 1
            st['paths'] -= 1
        except BoundExceeded:
            st['bound_exceeded'] += 1
        except Unsupported as e:
            st['unsupported'] += 1
            if len(st['unsupported_msgs']) < 5:
                st['unsupported_msgs'].append(repr(e)[:200] + ' @ ' + _where())
            if getattr(mod, 'DEFER_ORACLE_UNSUPPORTED', False) and _where().split(':')[0].startswith('C') and 'polynomial degree' in str(e):
                # the ORACLE's own arithmetic left the decidable fragment (bt's did not): the path's model is handed to the concrete replay, which
                # evaluates the same oracle on real floats (a sampled verdict for this path, counted separately)
                st['ended']['deferred-to-concrete'] = st['ended'].get('deferred-to-concrete', 0) + 1
        except Abort as e:
            st['unsupported'] += 1
            if len(st['unsupported_msgs']) < 5:
                st['unsupported_msgs'].append(repr(e)[:200])
        except RecursionError:
            st['unsupported'] += 1
        except Exception as e:
            rec = dict(error=repr(e)[:300], etype=type(e).__name__, tb=traceback.format_exc()[-int(os.environ.get("VERIF_TB", "1200")):], trace_len=len(ctx.trace), in_bt=_raised_in_bt())
            # keep a model of the path: if unshimmed bt raises the same exception on it, the driver reports it as a violation
            try:
                import z3
                if len(st['errors']) < 6 and ctx.check() == z3.sat:
                    m = ctx.lattice_model(z3.BoolVal(True)) or ctx.solver.model()
                    inputs, ufs = ctx.model_inputs(m)
                    rec['inputs'] = {k: _ser(x) for k, x in inputs.items()}
                    rec['ufs'] = {k: [[[_ser(a) for a in args], _ser(r)] for args, r in tab] for k, tab in ufs.items()}
            except Exception:
                pass
            if len(st['errors']) < 10:
                st['errors'].append(rec)
            else:
                st['errors'].append(dict(error=repr(e)[:100], etype=type(e).__name__))
        work.extend(ctx.pending)
        st['queries'] += ctx.nq
        st['tsolve'] += ctx.tsolve
        st['unknown'] += ctx.unknown
        st['decisions'] += len(ctx.trace)
        st['maxdeg'] = max(st['maxdeg'], ctx.maxdeg)
        st['maxdepth'] = max(st['maxdepth'], len(ctx.trace))
        deferred = st['ended'].get('deferred-to-concrete', 0) > st.get('_deferred_seen', 0)
        st['_deferred_seen'] = st['ended'].get('deferred-to-concrete', 0)
        if deferred or (done and run.path_obl and (len(st['witnesses']) < witness_cap or rnd.random() < 0.02) and len(st['witnesses']) < 4 * witness_cap):
            try:
                import z3
                m = ctx.model
                if m is None and ctx.check() == z3.sat:
                    m = ctx.solver.model()
                if m is not None:
                    m = ctx.lattice_model(z3.BoolVal(True)) or m
                    inputs, ufs = ctx.model_inputs(m)
                    st['witnesses'].append(dict(deferred=bool(deferred), inputs={k: _ser(x) for k, x in inputs.items()},
                                                ufs={k: [[[_ser(a) for a in args], _ser(r)] for args, r in tab] for k, tab in ufs.items()}))
            except Exception:
                pass
        if done and len(st['samples']) < 2:
            st['samples'].append(dict(harness=hname, cfg=_jsonable(cfg), decisions=len(ctx.trace), obligations_on_path=run.path_obl,
                                      notes=_jsonable(run.notes)))
    st['left'] = len(work)
    st['wall'] = time.time() - t0
    Ctx.cur = None
    return st


def _raised_in_bt():
    tb = traceback.extract_tb(sys.exc_info()[2])
    return bool(tb) and '/bt/' in tb[-1].filename


def _where():
    tb = traceback.extract_tb(sys.exc_info()[2])
    for fr in reversed(tb):
        if '/bt/' in fr.filename or '/harness/' in fr.filename:
            return '%s:%d %s' % (os.path.basename(fr.filename), fr.lineno, fr.name)
    return ''
