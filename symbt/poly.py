"""Exact multivariate polynomials over atom ids with Fraction coefficients.

A polynomial is a dict {monomial: Fraction}; a monomial is a sorted tuple of (atom_id, exponent).
Used as numerator/denominator of the rational-function normal form in sym.py."""
from fractions import Fraction

ONE = ()


def p_const(c):
    c = Fraction(c)
    return {ONE: c} if c != 0 else {}


def p_atom(i):
    return {((i, 1),): Fraction(1)}


def p_add(a, b, sb=1):
    if not b:
        return a
    r = dict(a)
    for m, c in b.items():
        v = r.get(m, 0) + sb * c
        if v == 0:
            r.pop(m, None)
        else:
            r[m] = v
    return r


def m_mul(m1, m2):
    if not m1:
        return m2
    if not m2:
        return m1
    d = dict(m1)
    for i, e in m2:
        d[i] = d.get(i, 0) + e
    return tuple(sorted(d.items()))


def p_mul(a, b):
    if not a or not b:
        return {}
    if len(b) == 1 and ONE in b:
        return p_scale(a, b[ONE])
    if len(a) == 1 and ONE in a:
        return p_scale(b, a[ONE])
    r = {}
    for m1, c1 in a.items():
        for m2, c2 in b.items():
            m = m_mul(m1, m2)
            v = r.get(m, 0) + c1 * c2
            if v == 0:
                r.pop(m, None)
            else:
                r[m] = v
    return r


def p_scale(a, c):
    if c == 1:
        return a
    return {m: v * c for m, v in a.items()} if c != 0 else {}


def p_is_const(a):
    return not a or (len(a) == 1 and ONE in a)


def p_constval(a):
    return a.get(ONE, Fraction(0))


def m_key(m):
    return (sum(e for _, e in m), m)


def p_lead(a):
    m = max(a, key=m_key)
    return m, a[m]


def m_div(m1, m2):
    d = dict(m1)
    for i, e in m2:
        if d.get(i, 0) < e:
            return None
        d[i] -= e
        if d[i] == 0:
            del d[i]
    return tuple(sorted(d.items()))


def p_divexact(n, d):
    """q with n == q*d, or None."""
    if not d:
        return None
    if p_is_const(d):
        return p_scale(n, 1 / p_constval(d))
    if not n:
        return {}
    q = {}
    r = dict(n)
    ld, cd = p_lead(d)
    guard = 0
    while r:
        guard += 1
        if guard > 400:
            return None
        lr, cr = p_lead(r)
        mq = m_div(lr, ld)
        if mq is None:
            return None
        cq = cr / cd
        q = p_add(q, {mq: cq})
        r = p_add(r, p_mul({mq: cq}, d), -1)
    return q


def p_deg(a):
    return max((sum(e for _, e in m) for m in a), default=0)


def p_atoms(a):
    return {i for m in a for i, _ in m}


def p_subst(a, sub):
    """replace atoms by polynomials: sub = {atom_id: poly}"""
    if not a:
        return a
    hit = False
    for m in a:
        for i, _ in m:
            if i in sub:
                hit = True
                break
        if hit:
            break
    if not hit:
        return a
    r = {}
    for m, c in a.items():
        term = {ONE: c}
        keep = []
        for i, e in m:
            if i in sub:
                for _ in range(e):
                    term = p_mul(term, sub[i])
            else:
                keep.append((i, e))
        if keep:
            term = p_mul(term, {tuple(keep): Fraction(1)})
        r = p_add(r, term)
    return r
