"""Symbolic reals as normalised rational functions over SMT atoms; path context with forking on __bool__.

The values here are what bt's real code computes with when a harness hands it symbolic prices, amounts,
positions ...: arithmetic builds exact terms, `if x < y:` asks the solver which sides are feasible.
Exploration is depth first by re-execution from a decision prefix (see run.py)."""
import math
import time
from fractions import Fraction
from math import lcm

import z3

from .poly import (ONE, p_subst, p_add, p_atom, p_atoms, p_const, p_constval, p_deg, p_divexact, p_is_const, p_lead, p_mul,
                   p_scale)

MAXDEPTH = 600
BOUND = 10 ** 9          # |atom| <= BOUND is assumed by the integer lattice split (declared ranges are far inside)
TIGHTEN = True
import os as _os
LAZY_GENERAL = _os.environ.get('SYMBT_LAZY_GENERAL', '1') == '1'


class Abort(BaseException):
    """Ends the current path without a verdict (BaseException so that bt's `except Exception` cannot swallow it)."""


class Infeasible(Abort):
    pass


class Unsupported(Abort):
    """Concretisation of a symbolic value, or an operation the engine has no exact meaning for."""


class BoundExceeded(Abort):
    pass


def _q(x):
    f = Fraction(x)
    return z3.Q(f.numerator, f.denominator)


class Ctx:
    cur = None

    def __init__(self, prefix=(), timeout_ms=10000, seed=0):
        self.prefix = list(prefix)
        self.trace = []
        self.pending = []
        self.solver = z3.Solver()
        self.solver.set('timeout', timeout_ms)
        if seed:
            self.solver.set('random_seed', seed % 1000)
        self.nq = 0
        self.tsolve = 0.0
        self.unknown = 0
        self.atoms = []          # z3 consts, index = atom id
        self.atom_names = []
        self.inputs = {}         # name -> (kind, z3 const, atom id)
        self.ufs = {}            # name -> (z3 func, [(args z3, result const)])
        self.maxdeg = 0
        self.model = None        # a model of the current path condition, when known
        self.clock = None        # harness-settable tag recorded with every decision (C04)
        self.decision_log = []   # (depth, clock, atom ids of condition) for non-trivial decisions
        self.log_decisions = False
        self.clock_fn = None
        self.assumptions = []
        self.deg_limit = 3
        self.decided = {}
        self.maxdepth = MAXDEPTH
        self.subst = {}          # atom id -> polynomial (linear equalities decided on this path)
        self.sliver_assume = True
        self.sliver_count = 0

    # ---- atoms / inputs
    def atom(self, z, name=None):
        self.atoms.append(z)
        self.atom_names.append(name or str(z))
        return len(self.atoms) - 1

    def real(self, name, lo=None, hi=None):
        z = z3.Real(name)
        i = self.atom(z, name)
        self.inputs[name] = ('real', z, i)
        if lo is not None:
            self.solver.add(z >= _q(lo))
        if hi is not None:
            self.solver.add(z <= _q(hi))
        return Sym.from_atom(i)

    def integer(self, name, lo, hi):
        z = z3.Int(name)
        i = self.atom(z, name)
        self.inputs[name] = ('int', z, i)
        self.solver.add(z >= lo, z <= hi)
        return Sym.from_atom(i)

    def boolean(self, name):
        z = z3.Bool(name)
        self.inputs[name] = ('bool', z, None)
        return SymBool(z)

    def fresh_real(self, stem, expr=None):
        v = z3.Real('%s!%d' % (stem, len(self.atoms)))
        if expr is not None:
            self.solver.add(v == expr)
        return self.atom(v)

    def uf(self, name, arity=2):
        if name not in self.ufs:
            self.ufs[name] = (z3.Function(name, *([z3.RealSort()] * (arity + 1))), [])
        f, apps = self.ufs[name]

        def call(*args):
            zs = [lift(a).z() for a in args]
            for zz, res in apps:                      # identical arguments -> identical atom
                if all(z3.eq(a, b) for a, b in zip(zz, zs)):
                    return Sym.from_atom(res)
            i = self.fresh_real('uf_' + name, f(*zs))
            apps.append((zs, i))
            return Sym.from_atom(i)
        return call

    # ---- solver
    def check(self, *extra):
        t = time.time()
        self.nq += 1
        r = self.solver.check(*extra)
        self.tsolve += time.time() - t
        return r

    def _add(self, c):
        self.solver.add(c)

    def decide(self, cond):
        cond = z3.simplify(cond)
        if z3.is_true(cond):
            return True
        if z3.is_false(cond):
            return False
        key = cond.get_id()
        hit = self.decided.get(key)
        if hit is not None:
            return hit[1]          # same condition already decided on this path (path conditions only grow)
        i = len(self.trace)
        if i > self.maxdepth:
            raise BoundExceeded('decision depth bound %d' % self.maxdepth)
        if self.log_decisions:
            self.decision_log.append((i, self.clock_fn() if self.clock_fn is not None else self.clock, cond))
        if i < len(self.prefix):
            d = bool(self.prefix[i])
            self.model = None
        else:
            mv = None
            if self.model is not None:
                try:
                    e = self.model.eval(cond, model_completion=True)
                    mv = True if z3.is_true(e) else (False if z3.is_false(e) else None)
                except z3.Z3Exception:
                    mv = None
            if mv is None:
                rt = self.check(cond)
                if rt == z3.sat:
                    mt = self.solver.model()
                    rf = self.check(z3.Not(cond))
                    if rf == z3.unsat:
                        d = True
                        self.model = mt
                    else:
                        if rf == z3.unknown:
                            self.unknown += 1
                        self.pending.append(self.trace + [0])
                        d = True
                        self.model = mt
                elif rt == z3.unsat:
                    rf = self.check(z3.Not(cond))
                    if rf == z3.unsat:
                        raise Infeasible()
                    if rf == z3.unknown:
                        self.unknown += 1
                        self.model = None
                    else:
                        self.model = self.solver.model()
                    d = False
                else:  # unknown on the true side: explore it, and the false side unless refuted
                    self.unknown += 1
                    rf = self.check(z3.Not(cond))
                    if rf == z3.unsat:
                        d = True
                        self.model = None
                    else:
                        if rf == z3.unknown:
                            self.unknown += 1
                        self.pending.append(self.trace + [0])
                        d = True
                        self.model = None
            else:
                # the cached model already witnesses side `mv`; only the other side needs a query
                other = z3.Not(cond) if mv else cond
                ro = self.check(other)
                if ro != z3.unsat:
                    if ro == z3.unknown:
                        self.unknown += 1
                    self.pending.append(self.trace + [0 if mv else 1])
                d = mv
        self.trace.append(1 if d else 0)
        self._add(cond if d else z3.Not(cond))
        self.decided[key] = (cond, d)
        return d

    def learn_equality(self, p):
        """p == 0 holds on this path.  If p is linear, eliminate its newest atom from all later normal forms."""
        if self.subst:
            p = p_subst(p, self.subst)
        if not p or p_deg(p) != 1:
            return
        cands = sorted({i for m in p for i, _ in m}, reverse=True)
        k = rest = None
        for i in cands:
            c = p.get(((i, 1),))
            if c is None:
                continue
            r = {m: -v / c for m, v in p.items() if m != ((i, 1),)}
            if z3.is_int(self.atoms[i]):
                # an Int atom is only replaced by a visibly integer combination of Int atoms (keeps IsInt obligations syntactic)
                if any(v.denominator != 1 for v in r.values()) or any(not z3.is_int(self.atoms[j]) for m in r for j, _ in m):
                    continue
            k, rest = i, r
            break
        if k is None:
            return
        for j in list(self.subst):
            self.subst[j] = p_subst(self.subst[j], {k: rest})
        self.subst[k] = rest

    def assume(self, c):
        if isinstance(c, SymBool):
            c = c.t
        if isinstance(c, bool):
            if not c:
                raise Infeasible()
            return
        self._add(c)
        if self.model is not None:
            try:
                if z3.is_true(self.model.eval(c, model_completion=True)):
                    return
            except z3.Z3Exception:
                pass
        r = self.check()
        if r == z3.unsat:
            raise Infeasible()
        self.model = self.solver.model() if r == z3.sat else None

    def feasible(self, c=None):
        """sat / unsat / unknown of the path condition (and c)."""
        if isinstance(c, SymBool):
            c = c.t
        r = self.check() if c is None else self.check(c)
        return str(r)

    def refute(self, c):
        """Try to prove c on this path.  Returns ('proved', None) | ('cex', model) | ('unknown', None)."""
        if isinstance(c, SymBool):
            c = c.t
        if isinstance(c, bool):
            return ('proved', None) if c else ('cex', self.solver.model() if self.check() == z3.sat else None)
        r = self.check(z3.Not(c))
        if r == z3.unsat:
            return ('proved', None)
        if r == z3.unknown:
            self.unknown += 1
            return ('unknown', None)
        return ('cex', self.solver.model())

    # ---- models
    def model_inputs(self, m):
        out = {}
        for name, (kind, z, _) in self.inputs.items():
            v = m.eval(z, model_completion=True)
            if kind == 'bool':
                out[name] = bool(z3.is_true(v))
            elif kind == 'int':
                out[name] = v.as_long()
            else:
                out[name] = _frac_of(v)
        ufs = {}
        for name, (f, apps) in self.ufs.items():
            tab = []
            for zs, res in apps:
                tab.append(([_frac_of(m.eval(a, model_completion=True)) for a in zs],
                            _frac_of(m.eval(self.atoms[res], model_completion=True))))
            ufs[name] = tab
        return out, ufs

    def lattice_model(self, extra, denom=64, max_vars=24):
        """Re-ask for a model of path ∧ extra whose real inputs sit on a dyadic lattice (exact in float64)."""
        self.solver.push()
        try:
            self.solver.add(extra)
            if self.check() != z3.sat:
                return None
            m = self.solver.model()
            n = 0
            for name, (kind, z, _) in list(self.inputs.items()):
                if kind != 'real':
                    continue
                n += 1
                if n > max_vars:
                    break
                v = _frac_of(m.eval(z, model_completion=True))
                r0 = Fraction(round(v * denom), denom)
                if r0 == v:
                    self.solver.add(z == _q(r0))
                    continue
                pinned = False
                # nearest lattice point first, then its neighbours (a raw model often sits on a strict boundary), then a finer lattice
                for r in (r0, r0 + Fraction(1, denom), r0 - Fraction(1, denom), r0 + Fraction(2, denom), r0 - Fraction(2, denom),
                          Fraction(round(v * 4096), 4096), Fraction(round(v * 4096) + 1, 4096), Fraction(round(v * 4096) - 1, 4096)):
                    self.solver.push()
                    self.solver.add(z == _q(r))
                    if self.check() == z3.sat:
                        m = self.solver.model()
                        pinned = True
                        break            # keep the pin (stay inside this push level)
                    self.solver.pop()
            return m
        finally:
            # unwind every level opened above
            while self.solver.num_scopes() > 0:
                self.solver.pop()


def _frac_of(v):
    if z3.is_int_value(v):
        return Fraction(v.as_long())
    if z3.is_rational_value(v):
        return Fraction(v.numerator_as_long(), v.denominator_as_long())
    if z3.is_algebraic_value(v):
        a = v.approx(30)
        return Fraction(a.numerator_as_long(), a.denominator_as_long())
    s = str(v)
    try:
        return Fraction(s)
    except Exception:
        raise Unsupported('cannot read model value %s' % s)


def p_z3(p):
    ctx = Ctx.cur
    if not p:
        return z3.RealVal(0)
    terms = []
    for m, c in p.items():
        t = None
        for i, e in m:
            a = ctx.atoms[i]
            if z3.is_int(a):
                a = z3.ToReal(a)
            for _ in range(e):
                t = a if t is None else t * a
        cz = _q(c)
        terms.append(cz if t is None else (t if c == 1 else cz * t))
    d = p_deg(p)
    if d > ctx.maxdeg:
        ctx.maxdeg = d
    if d > ctx.deg_limit:
        raise Unsupported('polynomial degree %d > limit %d (non-linear region not claimed)' % (d, ctx.deg_limit))
    return z3.Sum(terms) if len(terms) > 1 else terms[0]


def p_z3i(p):
    ctx = Ctx.cur
    if not p:
        return z3.IntVal(0)
    terms = []
    for m, c in p.items():
        t = None
        for i, e in m:
            a = ctx.atoms[i]
            for _ in range(e):
                t = a if t is None else t * a
        terms.append(z3.IntVal(int(c)) if t is None else (t if c == 1 else z3.IntVal(int(c)) * t))
    return z3.Sum(terms) if len(terms) > 1 else terms[0]


def _tighten(p, kind):
    """p over Int atoms only: p = N/L + Ps with N integer valued and L*|Ps| < 1/2 on the declared box, so the
    sign of p is decided exactly by a case split on the integer N (removes thin 1e-16/1e-8 strips)."""
    ctx = Ctx.cur
    if not p or kind is None:
        return None
    for m in p:
        for i, _ in m:
            if not z3.is_int(ctx.atoms[i]):
                return None
    pl = {}
    ps = {}
    for m, c in p.items():
        cl = c.limit_denominator(1 << 16)
        if abs(c - cl) > Fraction(1, 10 ** 6):
            return None
        if cl != 0:
            pl[m] = cl
        if c != cl:
            ps[m] = c - cl
    L = 1
    for c in pl.values():
        L = lcm(L, c.denominator)
    delta = sum(abs(c) * (BOUND ** sum(e for _, e in m)) for m, c in ps.items())
    if L * delta >= Fraction(1, 2):
        return None
    N = p_z3i({m: c * L for m, c in pl.items()})
    Ps = p_z3(ps) if ps else z3.RealVal(0)
    d = p_deg(pl)
    if d > ctx.maxdeg:
        ctx.maxdeg = d
    if kind == 'le':
        return z3.Or(N <= -1, z3.And(N == 0, Ps <= 0))
    if kind == 'lt':
        return z3.Or(N <= -1, z3.And(N == 0, Ps < 0))
    if kind == 'ge':
        return z3.Or(N >= 1, z3.And(N == 0, Ps >= 0))
    if kind == 'gt':
        return z3.Or(N >= 1, z3.And(N == 0, Ps > 0))
    if kind == 'eq':
        return z3.And(N == 0, Ps == 0)
    if kind == 'ne':
        return z3.Or(N != 0, Ps != 0)
    return None


_OPS = {'lt': lambda a: a < 0, 'le': lambda a: a <= 0, 'gt': lambda a: a > 0, 'ge': lambda a: a >= 0,
        'eq': lambda a: a == 0, 'ne': lambda a: a != 0}


def _rel(p, kind):
    t = _tighten(p, kind) if TIGHTEN else None
    if t is not None:
        return t
    return _OPS[kind](p_z3(p))


class SymBool:
    __slots__ = ('t', 'eqp', 'pol')

    def __init__(self, t, eqp=None, pol=True):
        self.t = t
        self.eqp = eqp        # polynomial p such that (t is `p == 0`) when pol else (t is `p != 0`)
        self.pol = pol

    def __bool__(self):
        d = Ctx.cur.decide(self.t)
        if self.eqp is not None and d == self.pol:
            Ctx.cur.learn_equality(self.eqp)
        return d

    def _o(self, o):
        if isinstance(o, SymBool):
            return o.t
        return z3.BoolVal(bool(o))

    def __and__(self, o):
        return SymBool(z3.And(self.t, self._o(o)))

    def __or__(self, o):
        return SymBool(z3.Or(self.t, self._o(o)))

    def __xor__(self, o):
        return SymBool(z3.Xor(self.t, self._o(o)))

    def __invert__(self):
        return SymBool(z3.Not(self.t), self.eqp, not self.pol)

    __rand__ = __and__
    __ror__ = __or__

    def __eq__(self, o):
        if isinstance(o, (SymBool, bool)):
            return SymBool(self.t == self._o(o))
        return NotImplemented

    def __ne__(self, o):
        if isinstance(o, (SymBool, bool)):
            return SymBool(self.t != self._o(o))
        return NotImplemented

    __hash__ = None

    def __repr__(self):
        return 'SymBool(%s)' % self.t

    def __deepcopy__(self, memo):
        return self


def _isnan(x):
    return isinstance(x, float) and x != x


def _is_arr(o):
    return type(o).__module__ == 'numpy' and type(o).__name__ == 'ndarray'


def _elementwise(o, f):
    import numpy as np
    out = np.empty(o.shape, dtype=object)
    for idx in np.ndindex(o.shape):
        out[idx] = f(o[idx])
    return out


def lift(x):
    if isinstance(x, Sym):
        if type(x) is not Sym:
            return x.force()
        return x
    if isinstance(x, bool):
        return Sym(p_const(int(x)), _P1)
    if isinstance(x, (int, Fraction)):
        return Sym(p_const(x), _P1)
    if isinstance(x, float):
        if math.isnan(x) or math.isinf(x):
            raise Unsupported('nan/inf lifted to a symbolic real')
        return Sym(p_const(Fraction(x)), _P1)
    try:
        import numpy as np
        if isinstance(x, np.floating):
            return lift(float(x))
        if isinstance(x, np.integer):
            return lift(int(x))
        if isinstance(x, np.bool_):
            return lift(bool(x))
    except ImportError:
        pass
    return NotImplemented


_P1 = p_const(1)


def _num_nan(o):
    if isinstance(o, float):
        return o != o
    if isinstance(o, (Sym, SymBool, int, Fraction)):
        return False
    try:
        import numpy as np
        if isinstance(o, np.floating):
            return bool(o != o)
    except ImportError:
        pass
    return False


class Sym:
    """n/d with d > 0 on the current path."""
    __slots__ = ('n', 'd')
    __array_priority__ = 1000

    def __init__(self, n, d):
        self.n = n
        self.d = d

    @staticmethod
    def from_atom(i):
        return Sym(p_atom(i), _P1)

    @staticmethod
    def make(n, d):
        if not n:
            return Sym({}, _P1)
        ctx = Ctx.cur
        if ctx is not None and ctx.subst:
            n = p_subst(n, ctx.subst)
            if not p_is_const(d):
                d = p_subst(d, ctx.subst)
            if not n:
                return Sym({}, _P1)
        if p_is_const(d):
            cv = p_constval(d)
            return Sym(n if cv == 1 else p_scale(n, 1 / cv), _P1)
        q = p_divexact(n, d)
        if q is not None:
            return Sym(q, _P1)
        _, c = p_lead(d)
        c = abs(c)
        if c != 1:
            n = p_scale(n, 1 / c)
            d = p_scale(d, 1 / c)
        return Sym(n, d)

    def is_concrete(s):
        return p_is_const(s.n) and p_is_const(s.d)

    def const(s):
        return p_constval(s.n) / p_constval(s.d)

    def atoms(s):
        return p_atoms(s.n) | p_atoms(s.d)

    # arithmetic
    def __add__(s, o, sg=1):
        if _is_arr(o):
            return _elementwise(o, lambda v: v + s if sg == 1 else s - v)
        if _num_nan(o):
            return float('nan')
        o = lift(o)
        if o is NotImplemented:
            return o
        if s.d == o.d:
            return Sym.make(p_add(s.n, o.n, sg), s.d)
        return Sym.make(p_add(p_mul(s.n, o.d), p_mul(o.n, s.d), sg), p_mul(s.d, o.d))

    __radd__ = __add__

    def __sub__(s, o):
        return s.__add__(o, -1)

    def __rsub__(s, o):
        if _is_arr(o):
            return _elementwise(o, lambda v: v - s)
        if _num_nan(o):
            return float('nan')
        o = lift(o)
        if o is NotImplemented:
            return o
        return o.__add__(s, -1)

    def __mul__(s, o):
        if _is_arr(o):
            return _elementwise(o, lambda v: v * s)
        if _num_nan(o):
            return float('nan')
        o = lift(o)
        if o is NotImplemented:
            return o
        n1, d1, n2, d2 = s.n, s.d, o.n, o.d
        if not p_is_const(d2):
            q = p_divexact(n1, d2)
            if q is not None:
                n1, d2 = q, _P1
        if not p_is_const(d1):
            q = p_divexact(n2, d1)
            if q is not None:
                n2, d1 = q, _P1
        return Sym.make(p_mul(n1, n2), p_mul(d1, d2))

    __rmul__ = __mul__

    def _iszero(s):
        return bool(SymBool(_rel(s.n, 'eq'), s.n, True))

    def __truediv__(s, o):
        if _is_arr(o):
            return _elementwise(o, lambda v: s / v)
        if _num_nan(o):
            return float('nan')
        o = lift(o)
        if o is NotImplemented:
            return o
        if o.is_concrete():
            c = o.const()
            if c == 0:
                raise ZeroDivisionError('division by zero')
            return Sym.make(p_scale(s.n, 1 / c), s.d)
        if o._iszero():
            raise ZeroDivisionError('symbolic division by zero')
        return s * Sym._inv(o)

    @staticmethod
    def _inv(o):
        if p_is_const(o.n):
            c = p_constval(o.n)
            return Sym.make(p_scale(o.d, 1 / c), _P1)
        if Ctx.cur.decide(_rel(o.n, 'gt')):
            return Sym.make(o.d, o.n)
        return Sym.make(p_scale(o.d, -1), p_scale(o.n, -1))

    def __rtruediv__(s, o):
        if _is_arr(o):
            return _elementwise(o, lambda v: v / s)
        if _num_nan(o):
            return float('nan')
        o = lift(o)
        if o is NotImplemented:
            return o
        return o.__truediv__(s)

    def __pow__(s, k):
        if isinstance(k, Sym) and k.is_concrete():
            k = k.const()
        if isinstance(k, (int, float, Fraction)) and float(k) == int(k) and 0 <= int(k) <= 6:
            r = lift(1)
            for _ in range(int(k)):
                r = r * s
            return r
        raise Unsupported('symbolic ** %r' % (k,))

    def __neg__(s):
        return Sym(p_scale(s.n, -1), s.d)

    def __pos__(s):
        return s

    def __abs__(s):
        if s.is_concrete():
            return Sym(p_const(abs(s.const())), _P1)
        return LazyAbs(s)

    def _abs_now(s):
        if s.is_concrete():
            return Sym(p_const(abs(s.const())), _P1)
        if Ctx.cur.decide(_rel(s.n, 'ge')):
            return s
        return -s

    def sign(s):
        if Ctx.cur.decide(_rel(s.n, 'gt')):
            return 1.0
        if Ctx.cur.decide(_rel(s.n, 'lt')):
            return -1.0
        return 0.0

    # comparisons
    def _cmp(s, o, kind):
        if _num_nan(o):
            return kind == 'ne'
        o = lift(o)
        if o is NotImplemented:
            return o
        diff = s - o
        if diff.is_concrete():
            c = diff.const()
            return {'lt': c < 0, 'le': c <= 0, 'gt': c > 0, 'ge': c >= 0, 'eq': c == 0, 'ne': c != 0}[kind]
        if kind == 'eq':
            return SymBool(_rel(diff.n, kind), diff.n, True)
        if kind == 'ne':
            return SymBool(_rel(diff.n, kind), diff.n, False)
        return SymBool(_rel(diff.n, kind))

    def __lt__(s, o):
        return s._cmp(o, 'lt')

    def __le__(s, o):
        return s._cmp(o, 'le')

    def __gt__(s, o):
        return s._cmp(o, 'gt')

    def __ge__(s, o):
        return s._cmp(o, 'ge')

    def __eq__(s, o):
        r = s._cmp(o, 'eq')
        return False if r is NotImplemented else r

    def __ne__(s, o):
        r = s._cmp(o, 'ne')
        return True if r is NotImplemented else r

    __hash__ = None

    def __bool__(s):
        if s.is_concrete():
            return s.const() != 0
        return not s._iszero()

    def __float__(s):
        if s.is_concrete():
            return float(s.const())
        raise Unsupported('float() of a symbolic real')

    def __int__(s):
        if s.is_concrete():
            return int(s.const())
        raise Unsupported('int() of a symbolic real')

    __index__ = __int__

    def __round__(s, nd=None):
        if s.is_concrete():
            return round(float(s.const()), nd)
        raise Unsupported('round() of a symbolic real')

    def __deepcopy__(s, memo):
        return s

    def __copy__(s):
        return s

    def __repr__(s):
        try:
            if s.is_concrete():
                return 'Sym(%s)' % s.const()
            if p_is_const(s.d):
                return 'Sym(%s)' % z3.simplify(p_z3(s.n))
            return 'Sym(%s / %s)' % (z3.simplify(p_z3(s.n)), z3.simplify(p_z3(s.d)))
        except Exception:
            return 'Sym(?)'

    def z(s):
        if p_is_const(s.d) and p_constval(s.d) == 1:
            return p_z3(s.n)
        return p_z3(s.n) / p_z3(s.d)

    def floor(s):
        if s.is_concrete():
            return lift(math.floor(s.const()))
        ctx = Ctx.cur
        k = z3.Int('fl!%d' % len(ctx.atoms))
        ki = ctx.atom(k)
        K = Sym.from_atom(ki)
        N = Sym(s.n, _P1)
        D = Sym(s.d, _P1)
        lo = (K * D) <= N
        hi = N < ((K + 1) * D)
        ctx._add(lo.t if isinstance(lo, SymBool) else z3.BoolVal(lo))
        ctx._add(hi.t if isinstance(hi, SymBool) else z3.BoolVal(hi))
        ctx._add(k >= -BOUND)
        ctx._add(k <= BOUND)
        ctx.model = None
        return K

    def ceil(s):
        return -((-s).floor())

    def rint(s):
        """numpy's round-half-even on a concrete value; floor(x + 1/2) otherwise (they differ only on exact .5 ties)"""
        if s.is_concrete():
            return lift(round(s.const()))
        return (s + Fraction(1, 2)).floor()

    def sqrt(s):
        if s.is_concrete():
            c = s.const()
            f = Fraction(math.isqrt(c.numerator), 1) / Fraction(math.isqrt(c.denominator), 1) if c >= 0 else None
            if f is not None and f * f == c:
                return lift(f)
        ctx = Ctx.cur
        if bool(s < 0):
            return float('nan')
        r = z3.Real('sqrt!%d' % len(ctx.atoms))
        ri = ctx.atom(r)
        R = Sym.from_atom(ri)
        ctx._add(r >= 0)
        eq = (R * R * Sym(s.d, _P1)) == Sym(s.n, _P1)
        ctx._add(eq.t if isinstance(eq, SymBool) else z3.BoolVal(eq))
        ctx.model = None
        return R


class LazyAbs(Sym):
    """|x| that does not fork until it is used arithmetically: comparisons `|x| < e` become one condition
    (x < e and -x < e), which is how bt's is_zero / isclose tests use it."""
    __slots__ = ('x', '_f')

    def __init__(self, x):
        self.x = x
        self._f = None

    def force(self):
        if self._f is None:
            self._f = self.x._abs_now()
        return self._f

    @property
    def n(self):
        return self.force().n

    @property
    def d(self):
        return self.force().d

    def __abs__(self):
        return self

    def _lazy_cmp(self, o, kind):
        if self._f is not None:
            return None
        if _num_nan(o):
            return kind == 'ne'
        if isinstance(o, LazyAbs):
            o = o.force()
        o = lift(o)
        if o is NotImplemented:
            return None
        a, b = self.x, -self.x
        ctx = Ctx.cur
        if ctx.sliver_assume and o.is_concrete() and 0 < o.const() <= Fraction(1, 10 ** 12) and kind in ('lt', 'le', 'gt', 'ge') \
                and not _all_int(a.n):
            # bt's is_zero(x): the strip 0 < |x| < 1e-16 is assumed away (stated assumption), so the test is exact x == 0
            c = o.const()
            z = a._cmp(0, 'eq')
            if isinstance(z, bool):
                return z if kind in ('lt', 'le') else (not z)
            big = _bor(a._cmp(c, 'ge'), b._cmp(c, 'ge'))
            ctx._add(z3.Or(z.t, big.t if isinstance(big, SymBool) else z3.BoolVal(big)))
            ctx.sliver_count += 1
            return z if kind in ('lt', 'le') else SymBool(z3.Not(z.t), z.eqp, not z.pol)
        if o.is_concrete() and 0 < o.const() <= Fraction(1, 10 ** 12) and kind in ('lt', 'le', 'gt', 'ge') and _all_int(a.n) and _no_small_part(a.n, a.d):
            # integer lattice: |x| < tiny  <=>  x == 0 exactly (x = N/L with N integer valued); lets the path learn the equality
            z = a._cmp(0, 'eq')
            if isinstance(z, bool):
                return z if kind in ('lt', 'le') else (not z)
            return z if kind in ('lt', 'le') else SymBool(z3.Not(z.t), z.eqp, not z.pol)
        if not LAZY_GENERAL:
            return None
        if kind in ('lt', 'le'):
            return _band(a._cmp(o, kind), b._cmp(o, kind))
        if kind in ('gt', 'ge'):
            return _bor(a._cmp(o, kind), b._cmp(o, kind))
        return None

    def __lt__(s, o):
        r = s._lazy_cmp(o, 'lt')
        return Sym.__lt__(s, o) if r is None else r

    def __le__(s, o):
        r = s._lazy_cmp(o, 'le')
        return Sym.__le__(s, o) if r is None else r

    def __gt__(s, o):
        r = s._lazy_cmp(o, 'gt')
        return Sym.__gt__(s, o) if r is None else r

    def __ge__(s, o):
        r = s._lazy_cmp(o, 'ge')
        return Sym.__ge__(s, o) if r is None else r

    __hash__ = None

    def __eq__(s, o):
        return Sym.__eq__(s, o)

    def __ne__(s, o):
        return Sym.__ne__(s, o)


def _no_small_part(n, d):
    """n/d with constant d and all coefficients of n on a coarse lattice (denominators <= 2^16): a multiple of 1/L"""
    if not p_is_const(d):
        return False
    for c in n.values():
        if c.denominator > (1 << 16):
            return False
    L = 1
    for c in n.values():
        L = lcm(L, c.denominator)
    return L * p_constval(d) < 10 ** 11 and L < 10 ** 11


def _all_int(p):
    """every atom of p is an SMT Int (then the exact lattice split already removes the thin strips)"""
    ctx = Ctx.cur
    for m in p:
        for i, _ in m:
            if not z3.is_int(ctx.atoms[i]):
                return False
    return True


def _band(a, b):
    if isinstance(a, bool):
        return b if a else False
    if isinstance(b, bool):
        return a if b else False
    return a & b


def _bor(a, b):
    if isinstance(a, bool):
        return True if a else b
    if isinstance(b, bool):
        return True if b else a
    return a | b


def is_sym(x):
    return isinstance(x, (Sym, SymBool))


def atoms_of(x):
    return x.atoms() if isinstance(x, Sym) else set()
