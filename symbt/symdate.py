"""Symbolic timestamps: (year, month, day, second-of-day) SMT Ints with the civil (proleptic Gregorian / ISO-8601) calendar
as z3 terms.  The same formulas run on Python ints; validate_calendar() checks them against pandas on every day of a range."""
import z3

from .sym import Ctx, SymBool


def If(c, a, b):
    if isinstance(c, bool):
        return a if c else b
    return z3.If(c, a, b)


def And(*a):
    if all(isinstance(x, bool) for x in a):
        return all(a)
    return z3.And(*[z3.BoolVal(x) if isinstance(x, bool) else x for x in a])


def Or(*a):
    if all(isinstance(x, bool) for x in a):
        return any(a)
    return z3.Or(*[z3.BoolVal(x) if isinstance(x, bool) else x for x in a])


def div(a, b):
    return a // b if isinstance(a, int) else a / b      # z3 Int '/' is floor division for a positive divisor


def mod(a, b):
    return a % b


def is_leap(y):
    return And(mod(y, 4) == 0, Or(mod(y, 100) != 0, mod(y, 400) == 0))


CUM = [0, 31, 59, 90, 120, 151, 181, 212, 243, 273, 304, 334]


def cum(m):
    r = CUM[11]
    for i in range(10, -1, -1):
        r = If(m == i + 1, CUM[i], r)
    return r


def dim(y, m):
    r = 31
    for mm, d in ((4, 30), (6, 30), (9, 30), (11, 30)):
        r = If(m == mm, d, r)
    return If(m == 2, If(is_leap(y), 29, 28), r)


def doy(y, m, d):
    return cum(m) + d + If(And(is_leap(y), m > 2), 1, 0)


def days_before_year(y):
    y1 = y - 1
    return y1 * 365 + div(y1, 4) - div(y1, 100) + div(y1, 400)


def ordinal(y, m, d):
    return days_before_year(y) + doy(y, m, d)


def weekday(y, m, d):
    return mod(ordinal(y, m, d) + 6, 7)       # Monday = 0


def weeks_in_year(y):
    w = weekday(y, 1, 1)
    return If(Or(w == 3, And(is_leap(y), w == 2)), 53, 52)


def isoweek(y, m, d):
    w = div(doy(y, m, d) - (weekday(y, m, d) + 1) + 10, 7)
    return If(w < 1, weeks_in_year(y - 1), If(w > weeks_in_year(y), 1, w))


def isoyear(y, m, d):
    w = div(doy(y, m, d) - (weekday(y, m, d) + 1) + 10, 7)
    return If(w < 1, y - 1, If(w > weeks_in_year(y), y + 1, y))


def validate_calendar(start='1990-01-01', end='2040-12-31'):
    """every day of the range: ordinal, ISO week/year, quarter of the formulas == pandas'.  Returns the number of days checked."""
    import pandas as pd
    n = 0
    for ts in pd.date_range(start, end):
        y, m, d = ts.year, ts.month, ts.day
        iso = ts.isocalendar()
        if not (ordinal(y, m, d) == ts.toordinal() and isoweek(y, m, d) == ts.week == iso[1] and isoyear(y, m, d) == iso[0]
                and (m - 1) // 3 + 1 == ts.quarter and weekday(y, m, d) == ts.weekday()):
            raise AssertionError('calendar formula mismatch on %s' % ts)
        n += 1
    return n



# ---------------------------------------------------------------------------------------------------------------------------------
# Table-driven calendar over a bounded year range: the day ordinal N is the primary variable and every calendar field is a sum of
# step functions of N with constant breakpoints (linear integer arithmetic with ITEs - fast for the solver, unlike div/mod chains).
import datetime as _dt

Y0, Y1 = 1990, 2040
_YSTART = [_dt.date(y, 1, 1).toordinal() for y in range(Y0, Y1 + 2)]                       # start of each year (one past the end)
_MSTART = [_dt.date(y, m, 1).toordinal() for y in range(Y0, Y1 + 1) for m in range(1, 13)] + [_dt.date(Y1 + 1, 1, 1).toordinal()]
N_LO, N_HI = _YSTART[0], _YSTART[-1] - 1


def _step_sum(n, points):
    """number of breakpoints <= n"""
    if isinstance(n, int):
        return sum(1 for p in points if n >= p)
    return z3.Sum([z3.If(n >= p, 1, 0) for p in points])


def t_year(n):
    return Y0 + _step_sum(n, _YSTART[1:-1])


def t_monthidx(n):
    """months since January of Y0"""
    return _step_sum(n, _MSTART[1:-1])


def t_month(n):
    return t_monthidx(n) - 12 * (t_year(n) - Y0) + 1


def t_monthstart(n):
    if isinstance(n, int):
        return max(p for p in _MSTART if p <= n)
    return _MSTART[0] + z3.Sum([z3.If(n >= _MSTART[k], _MSTART[k] - _MSTART[k - 1], 0) for k in range(1, len(_MSTART) - 1)])


def t_day(n):
    return n - t_monthstart(n) + 1


def t_yearstart(n_year_of):
    """ordinal of Jan 1 of the year containing ordinal n_year_of"""
    n = n_year_of
    if isinstance(n, int):
        return max(p for p in _YSTART if p <= n)
    return _YSTART[0] + z3.Sum([z3.If(n >= _YSTART[k], _YSTART[k] - _YSTART[k - 1], 0) for k in range(1, len(_YSTART) - 1)])


def t_weekday(n, ctx=None):
    """Monday = 0.  For a z3 term a fresh Int w with n + 6 == 7*k + w, 0 <= w < 7 is introduced."""
    if isinstance(n, int):
        return (n + 6) % 7
    ctx = ctx or Ctx.cur
    w = z3.Int('wd!%d' % len(ctx.atoms))
    k = z3.Int('wk!%d' % len(ctx.atoms))
    ctx.atom(w)
    ctx.atom(k)
    ctx._add(z3.And(n + 6 == 7 * k + w, w >= 0, w <= 6))
    ctx.model = None
    return w


def t_iso(n, wd, ctx=None):
    """(iso year, iso week) from ordinal and weekday: the ISO year is the calendar year of that week's Thursday"""
    thu = n - wd + 3
    if isinstance(n, int):
        iy = t_year(thu) if N_LO <= thu <= N_HI else (Y0 - 1 if thu < N_LO else Y1 + 1)
        ys = _dt.date(iy, 1, 1).toordinal()
        return iy, (thu - ys) // 7 + 1
    ctx = ctx or Ctx.cur
    iy = Y0 - 1 + _step_sum(thu, _YSTART[:-1]) + z3.If(thu >= _YSTART[-1], 1, 0)
    ys = z3.If(thu < _YSTART[0], _dt.date(Y0 - 1, 1, 1).toordinal(), z3.If(thu >= _YSTART[-1], _YSTART[-1], t_yearstart(thu)))
    iw = z3.Int('iw!%d' % len(ctx.atoms))
    r = z3.Int('ir!%d' % len(ctx.atoms))
    ctx.atom(iw)
    ctx.atom(r)
    ctx._add(z3.And(thu - ys == 7 * (iw - 1) + r, r >= 0, r <= 6, iw >= 1, iw <= 53))
    ctx.model = None
    return iy, iw


def validate_tables(start=None, end=None):
    """every day of the range: the table-driven fields == pandas'.  Returns the number of days checked."""
    import pandas as pd
    n = 0
    for ts in pd.date_range(start or '%d-01-01' % Y0, end or '%d-12-31' % Y1):
        N = ts.toordinal()
        iso = ts.isocalendar()
        wd = t_weekday(N)
        if not (t_year(N) == ts.year and t_month(N) == ts.month and t_day(N) == ts.day and wd == ts.weekday() and t_iso(N, wd) == (iso[0], iso[1])
                and ts.week == iso[1] and (t_month(N) - 1) // 3 + 1 == ts.quarter
                and 12 * (t_year(N) - Y0) <= t_monthidx(N) <= 12 * (t_year(N) - Y0) + 11
                and _step_sum(N, [_MSTART[k] for k in range(3, len(_MSTART) - 1, 3)]) == 4 * (ts.year - Y0) + ts.quarter - 1):
            raise AssertionError('calendar table mismatch on %s' % ts)
        n += 1
    return n


class SymInt:
    """z3 Int wrapper with Python comparison semantics (forks on truth)."""
    __slots__ = ('t',)

    def __init__(self, t):
        self.t = t

    def _o(self, o):
        return o.t if isinstance(o, SymInt) else o

    def __eq__(self, o):
        return SymBool(self.t == self._o(o))

    def __ne__(self, o):
        return SymBool(self.t != self._o(o))

    def __lt__(self, o):
        return SymBool(self.t < self._o(o))

    def __le__(self, o):
        return SymBool(self.t <= self._o(o))

    def __gt__(self, o):
        return SymBool(self.t > self._o(o))

    def __ge__(self, o):
        return SymBool(self.t >= self._o(o))

    __hash__ = None


class SymDateOnly:
    def __init__(self, n):
        self.n = n

    def __ne__(self, o):
        return SymBool(self.n != o.n)

    def __eq__(self, o):
        return SymBool(self.n == o.n)

    __hash__ = None


class SymTS:
    """symbolic pandas-Timestamp look-alike (only what bt's schedulers use); primary variables: day ordinal N and second-of-day s"""
    _symdate = True

    def __init__(self, name, ylo=Y0, yhi=Y1, ctx=None, intraday=True):
        ctx = ctx or Ctx.cur
        self.ctx = ctx
        self.name = name
        self.N, self.s = z3.Int(name + '_N'), z3.Int(name + '_s')
        ctx.inputs[name + '_N'] = ('int', self.N, None)
        ctx.inputs[name + '_s'] = ('int', self.s, None)
        lo = _dt.date(max(ylo, Y0), 1, 1).toordinal()
        hi = _dt.date(min(yhi, Y1), 12, 31).toordinal()
        ctx._add(z3.And(self.N >= lo, self.N <= hi, self.s >= 0, self.s < 86400))
        if not intraday:
            ctx._add(self.s == 0)
        ctx.model = None
        self._wd = None
        self._iso = None
        self.y = t_year(self.N)
        self.mi = t_monthidx(self.N)
        self.m = self.mi - 12 * (self.y - Y0) + 1
        # true facts about the step sums (checked for every day by validate_tables) that spare the solver re-deriving them
        q = self.qidx()
        ctx._add(z3.And(12 * (self.y - Y0) <= self.mi, self.mi <= 12 * (self.y - Y0) + 11, 3 * q <= self.mi, self.mi <= 3 * q + 2,
                        4 * (self.y - Y0) <= q, q <= 4 * (self.y - Y0) + 3))

    def key(self):
        return self.N * 86400 + self.s

    def wd(self):
        if self._wd is None:
            self._wd = t_weekday(self.N, self.ctx)
        return self._wd

    def iso(self):
        if self._iso is None:
            self._iso = t_iso(self.N, self.wd(), self.ctx)
        return self._iso

    year = property(lambda s: SymInt(s.y))
    month = property(lambda s: SymInt(s.m))
    day = property(lambda s: SymInt(t_day(s.N)))
    quarter = property(lambda s: SymInt(s.qidx() - 4 * (s.y - Y0) + 1))
    week = property(lambda s: SymInt(s.iso()[1]))
    weekofyear = week
    dayofweek = property(lambda s: SymInt(s.wd()))

    def weekday(self):
        return SymInt(self.wd())

    def isocalendar(self):
        iy, iw = self.iso()
        return (SymInt(iy), SymInt(iw), SymInt(self.wd() + 1))

    def date(self):
        return SymDateOnly(self.N)

    def monday(self):
        return self.N - self.wd()

    def qidx(self):
        """quarters since Q1 of Y0 (for the oracle)"""
        return _step_sum(self.N, [_MSTART[k] for k in range(3, len(_MSTART) - 1, 3)])

    def toordinal(self):
        return SymInt(self.N)

    def __eq__(self, o):
        if not isinstance(o, SymTS):
            return False
        return SymBool(z3.And(self.N == o.N, self.s == o.s))

    def __ne__(self, o):
        if not isinstance(o, SymTS):
            return True
        return SymBool(z3.Or(self.N != o.N, self.s != o.s))

    def __lt__(self, o):
        return SymBool(self.key() < o.key())

    def __le__(self, o):
        return SymBool(self.key() <= o.key())

    def __gt__(self, o):
        return SymBool(self.key() > o.key())

    def __ge__(self, o):
        return SymBool(self.key() >= o.key())

    __hash__ = None

    def __repr__(self):
        return 'SymTS(%s)' % self.name


class SymIndex:
    """What RunPeriod needs of `target.data.index`: membership, get_loc, len, positional access."""

    def __init__(self, dates, known_sorted=True):
        self.dates = list(dates)
        self.known_sorted = known_sorted

    def __len__(self):
        return len(self.dates)

    def __getitem__(self, i):
        return self.dates[i]

    def __contains__(self, x):
        for d in self.dates:
            if d is x:
                return True
        for d in self.dates:
            if bool(d == x):
                return True
        return False

    def get_loc(self, x):
        for i, d in enumerate(self.dates):
            if d is x:
                return i
        for i, d in enumerate(self.dates):
            if bool(d == x):
                return i
        raise KeyError(x)

    def __iter__(self):
        return iter(self.dates)

    def searchsorted(self, x, side='left'):
        if not self.known_sorted:
            # an index built by the code under test from arbitrary dates: numpy's lower/upper-bound binary search, step by step, so that the
            # result on unsorted data is the one the real call returns
            lo, hi = 0, len(self.dates)
            while lo < hi:
                mid = lo + ((hi - lo) >> 1)
                d = self.dates[mid]
                if bool(d < x) or (side == 'right' and bool(d == x)):
                    lo = mid + 1
                else:
                    hi = mid
            return lo
        k = 0
        for d in self.dates:
            if bool(d < x) or (side == 'right' and bool(d == x)):
                k += 1
        return k

    def min(self):
        return self.dates[0]

    def max(self):
        return self.dates[-1]

    def get_indexer(self, xs, method=None):
        return [self.get_loc(x) if x in self else -1 for x in xs]


class SymDay:
    """symbolic date known only by its day number (order / equality is all the counting schedulers use)"""
    _symdate = True

    def __init__(self, name, lo, hi, ctx=None):
        ctx = ctx or Ctx.cur
        self.name = name
        self.n = z3.Int(name)
        ctx.inputs[name] = ('int', self.n, None)
        ctx._add(z3.And(self.n >= lo, self.n <= hi))
        ctx.model = None

    def key(self):
        return self.n

    def __eq__(self, o):
        if not isinstance(o, SymDay):
            return False
        return SymBool(self.n == o.n)

    def __ne__(self, o):
        if not isinstance(o, SymDay):
            return True
        return SymBool(self.n != o.n)

    def __lt__(self, o):
        return SymBool(self.n < o.n)

    def __le__(self, o):
        return SymBool(self.n <= o.n)

    def __gt__(self, o):
        return SymBool(self.n > o.n)

    def __ge__(self, o):
        return SymBool(self.n >= o.n)

    __hash__ = None
