"""Load bt from the working tree's .py files (never the stale compiled core) and record which bt functions run."""
import importlib.abc
import importlib.machinery
import importlib.util
import os
import sys

REPO = os.environ.get('BT_REPO', '/repo')


class _SrcCore(importlib.abc.MetaPathFinder):
    def __init__(self, repo):
        self.repo = repo

    def find_spec(self, name, path, target=None):
        if name == 'bt.core':
            p = self.repo + '/bt/core.py'
            return importlib.util.spec_from_file_location(name, p, loader=importlib.machinery.SourceFileLoader(name, p))
        return None


_bt = None


def load_bt(repo=None, compiled_dir=None):
    """Import bt.  Default: interpreted source of `repo`.  compiled_dir: a directory holding a freshly built copy
    (bt/ with core*.so) - used for concrete replays on the compiled build only."""
    global _bt
    if _bt is not None:
        return _bt
    sys.dont_write_bytecode = True
    if compiled_dir:
        sys.path.insert(0, compiled_dir)
        import bt
        assert not bt.core.__file__.endswith('.py'), bt.core.__file__
    else:
        repo = repo or REPO
        sys.meta_path.insert(0, _SrcCore(repo))
        sys.path.insert(0, repo)
        import bt
        assert bt.core.__file__ == repo + '/bt/core.py', bt.core.__file__
        assert bt.algos.__file__.startswith(repo), bt.algos.__file__
    _bt = bt
    return bt


_seen = set()
_TOOL = 3


def start_function_monitor(repo=None):
    """Record the qualified names of bt functions executed (sys.monitoring, PY_START, disabled per site after first hit)."""
    repo = (repo or REPO) + '/bt/'
    mon = sys.monitoring
    try:
        mon.use_tool_id(_TOOL, 'symbt')
    except ValueError:
        return

    def on_start(code, off):
        if code.co_filename.startswith(repo):
            _seen.add(os.path.basename(code.co_filename)[:-3] + '.' + code.co_qualname)
        return mon.DISABLE
    mon.register_callback(_TOOL, mon.events.PY_START, on_start)
    mon.set_events(_TOOL, mon.events.PY_START)


def functions_seen():
    return sorted(_seen)
