#!/bin/bash
# usage: tools/mutant_matrix.sh <out.tsv> [tier] [ids...]   -- every seeded change against the check of the property it breaks (scratch worktrees, never /repo)
OUT=$1; T=${2:-quick}; shift 2
IDS="$@"; [ -z "$IDS" ] && IDS=$(ls /verif/seeded)
for m in $IDS; do
  prop=${m%%-*}
  WT=/tmp/wtm/mx_$m
  HEAD=$(git -C /repo rev-parse HEAD)
  rm -rf $WT; git -C /repo worktree prune; git -C /repo worktree add -q --detach $WT $HEAD || continue
  if ! git -C $WT apply /verif/seeded/$m/patch.diff; then echo -e "$m\t$prop\tPATCH-FAILS" >> $OUT; git -C /repo worktree remove --force $WT; continue; fi
  s=$(date +%s)
  out=$(cd /verif && BT_REPO=$WT VERIF_EVIDENCE_DIR=/tmp/wtm/ev_$m ./bin/check $prop $T 2>&1); code=$?
  e=$(date +%s)
  first=$(echo "$out" | grep -E "VIOLATION|HARNESS-ERROR" | head -1 | sed 's/.*replay=.*replays\///' | cut -c1-90)
  echo -e "$m\t$prop\texit=$code\t$((e-s))s\t$first" >> $OUT
  git -C /repo worktree remove --force $WT
done
