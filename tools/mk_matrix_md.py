#!/usr/bin/env python3
"""Append / refresh the seeded-change detection matrix at the end of DESIGN.md from one or more TSV files written by tools/mutant_matrix.sh."""
import json
import os
import sys

V = os.path.dirname(os.path.dirname(os.path.abspath(__file__)))
rows = {}
for f in sys.argv[1:]:
    for l in open(f):
        p = l.rstrip('\n').split('\t')
        if len(p) >= 3:
            rows[p[0]] = p
out = ['', '## Detection matrix (seeded changes vs the check of the property they break)', '',
       'Each seeded change is applied in a scratch worktree (`BT_REPO=<worktree> bin/check <id> quick`); `exit=1` with a `VIOLATION` line whose replay',
       'reproduces on unshimmed bt counts as caught.', '',
       '| seeded change | what it does (needs) | check | result | first violation |', '|---|---|---|---|---|']
for m in sorted(rows):
    p = rows[m]
    meta = {}
    mp = os.path.join(V, 'seeded', m, 'meta.json')
    if os.path.exists(mp):
        meta = json.load(open(mp))
    what = (meta.get('summary', '')[:110] + ' — needs: ' + meta.get('needs', '')[:110]).replace('|', '/').replace('\n', ' ')
    res = 'caught' if 'exit=1' in p[2] else ('MISSED' if 'exit=0' in p[2] else p[2])
    if meta.get('status', {}).get('neutralised_by') and 'exit=0' in p[2]:
        res = 'no longer a violation: neutralised by ' + meta['status']['neutralised_by'] + '; caught on the tree it was written for'
    viol = (p[4] if len(p) > 4 else '').split('/')[-1].rsplit('-', 1)[0]
    out.append('| %s | %s | %s | %s (%s) | %s |' % (m, what, p[1], res, p[3] if len(p) > 3 else '', viol))
s = open(os.path.join(V, 'DESIGN.md')).read()
marker = '\n## Detection matrix'
if marker in s:
    s = s[:s.index(marker)]
open(os.path.join(V, 'DESIGN.md'), 'w').write(s.rstrip('\n') + '\n' + '\n'.join(out) + '\n')
print('rows', len(rows), 'caught', sum(1 for p in rows.values() if 'exit=1' in p[2]))
