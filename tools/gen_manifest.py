#!/usr/bin/env python3
"""Regenerate MANIFEST.json from the table below (keeps it schema-valid while checks are added)."""
import json
import os

V = os.path.dirname(os.path.dirname(os.path.abspath(__file__)))

LEVEL_NOTE = ("Relative to: exact real arithmetic with bt's own tolerances (IEEE rounding only through witness replays on real float64 "
              "pandas); the stated bounds/grids; the shims in symbt/shims.py; z3's verdicts (unknown = undecided, never success). "
              "Every counterexample is replayed on unshimmed bt loaded from /repo before it is reported.")

CHECKS = {
    'C05': dict(
        text="Bounded symbolic execution of the real SecurityBase.allocate/outlay/transact from an arbitrary prior position: amount, position and "
             "capital are solver variables, price/multiplier/spread/commission come from a dyadic grid; budget, maximality, exact spend, close-out, "
             "zero-amount and bad-price obligations are discharged by z3 on every feasible path (all linear).",
        technique="symbolic execution of bt/core.py on rational-function values, z3 (QF_LIRA) per path, concrete replay of models",
        ref="DESIGN.md §3 C05"),
    'C01': dict(
        text="Bounded symbolic execution of the real StrategyBase/SecurityBase update, adjust, allocate, transact, rebalance, close, flatten on "
             "flat, lazy-child and nested trees: from an arbitrary synced pre-state (symbolic capital and positions) every length-2 (thorough: 3) "
             "sequence of operation kinds is executed with symbolic arguments and the balance-sheet identities and recorded rows are proved "
             "after every operation on every feasible path.",
        technique="symbolic execution of bt/core.py on rational-function values over operation sequences, z3 per path, concrete replay of models",
        ref="DESIGN.md §3 C01"),
    'C02': dict(
        text="Same operation-sequence machinery with a ghost ledger kept by the harness: after every operation the change of root value is proved "
             "equal to the injected flow minus the commissions and half-spreads of the trades it caused, every date change to mark-to-market plus "
             "carry, and the recorded value series to the full decomposition, for symbolic capital, positions, amounts and an uninterpreted commission.",
        technique="symbolic execution of bt/core.py over operation sequences with ghost P&L attribution, z3 per path, concrete replay",
        ref="DESIGN.md §3 C02"),
    'C07': dict(
        text="Per strategy node and date the cash-ledger identity, and per security/parent the recorded outlay / fee / bid-offer rows against the "
             "harness's ghost trades (position deltas at market or custom price, commission function evaluated by the harness), proved on every "
             "feasible path of symbolic operation sequences over flat, nested and three-level trees.",
        technique="symbolic execution of bt/core.py over operation sequences with a ghost cash ledger, z3 per path, concrete replay",
        ref="DESIGN.md §3 C07"),
    'C08': dict(
        text="After symbolic operation histories whose last operation is left un-synced: every public accessor of every node is read on a deep copy "
             "directly and on another after an explicit update and proved equal cell by cell; redundant updates are proved to change no accessor; rows "
             "captured when the clock moved are proved unchanged later; no series extends past now.",
        technique="symbolic execution of bt/core.py; relational snapshot comparison of accessors on symbolic trees, z3 per path, concrete replay",
        ref="DESIGN.md §3 C08"),
    'C03': dict(
        text="Index recurrence price[t](value[t-1]+flows[t]) = price[t-1] value[t] proved on every date of symbolic operation histories with the flows "
             "the harness injected as ghost variables (solvent and degenerate pre-states), flow-neutrality without P&L, and capital-scale invariance of a "
             "multi-date rebalancing script (the recorded index must be free of the capital variable).",
        technique="symbolic execution of bt/core.py; rational-function normal forms + z3 per path; concrete replay",
        ref="DESIGN.md §3 C03"),
    'C06': dict(
        text="Real algos.Rebalance / RebalanceOverTime / StrategyBase.rebalance from an arbitrary prior portfolio (symbolic positions and capital): exact target "
             "weights without costs, within one unit plus costs otherwise, untargeted children closed, remainder in cash, sub-strategy targets spread by "
             "child weights, stepwise targets with re-arming, on every feasible path.",
        technique="symbolic execution of bt/algos.py + bt/core.py on rational-function values, z3 per path, concrete replay",
        ref="DESIGN.md §3 C06"),
    'C09': dict(
        text="Relational: the same calendar-gated child definition run nested (symbolic parent capital and child weight, solver-chosen allocation dates, "
             "possibly bankrupt parent) and stand-alone through the real Backtest.run; the two price series and the parent's universe column are proved "
             "equal date for date.",
        technique="symbolic execution of two real Backtest.run executions (relational), z3 per path, concrete replay",
        ref="DESIGN.md §3 C09"),
    'C12': dict(
        text="Real RunPeriod.__call__/compare_dates of the five calendar schedulers on a symbolic strictly increasing index of timestamps (day ordinal and "
             "second as SMT Ints, calendar fields as table-driven step functions validated against pandas on every day 1990-2040), all flag combinations "
             "and positions, off-index dates; counting/date schedulers on symbolic call sequences with repeats against a reference automaton.",
        technique="symbolic execution of bt/algos.py schedulers over SMT-encoded civil calendar, z3 (LIA) per path, concrete replay on pandas",
        ref="DESIGN.md §3 C12"),
    'C13': dict(
        text="Real AlgoStack.__call__, Or, Not, Require, Strategy.run with mock algos whose return values and run_always markers are symbolic choices, "
             "checked against a reference interpreter (invocation log and result) on every feasible path up to length 4 with nesting; RunIfOutOfBounds on a "
             "real tree with symbolic positions, capital and tolerance.",
        technique="symbolic execution with solver-driven choice points (bounded exhaustive over return/marker patterns) + z3 for the numeric part",
        ref="DESIGN.md §3 C13"),
    'C16': dict(
        text="Real Backtest.run with a spy algo, leveraged/short targets and symbolic later prices (positions constant, values linear): flag iff a recorded "
             "value is negative (two one-sided implications), every position in the tree closed from that date, algos no longer run, value and cash "
             "constant, sub-strategies and fixed-income roots never flagged, on every feasible path (bankruptcy on any date or none).",
        technique="symbolic execution of the real Backtest.run with symbolic future prices, z3 (LRA) per path, concrete replay",
        ref="DESIGN.md §3 C16"),
    'C04': dict(
        text="For every cut date t the future is symbolic: each supplied data cell dated after t (prices, stats, target weights, unit risks, coupons, "
             "bid/offer) is a solver variable, the past is concrete; the real Backtest.run with a StopAfter(t) algo is executed for a catalogue of 12 stacks "
             "covering the stock scheduling/selection/statistic/weighting/rebalancing algos, and it is proved that no branch is decided on a future cell "
             "while now <= t and that every recorded row dated <= t, every temp entry handed between algos and every kernel input is a constant - i.e. for "
             "ALL values of the future cells.",
        technique="symbolic execution of the real Backtest.run with symbolic future data (taint = SMT atoms), z3 per path; two-futures concrete replay",
        ref="DESIGN.md §3 C04"),
    'C10': dict(
        text="Well-formed catalogue (13 stacks: every stock scheduling/selection/statistic/weighting/rebalancing algo, nested, explicit-children and fixed-income "
             "trees, late listings) executed symbolically with the last date's data symbolic and the report accessors called on the finished run: an exception "
             "or a non-finite recorded number on a feasible path is a violation; every path's model is replayed on real float64 pandas on the interpreted source "
             "and on a freshly cythonized build of the working tree; seven ill-formed classes must raise. Exception-freedom under stated preconditions is also an "
             "obligation inside C05.",
        technique="symbolic execution of the real Backtest.run + report accessors, z3 per path; witness replay on source and freshly compiled build",
        ref="DESIGN.md §3 C10"),
    'C14': dict(
        text="Real selection algos on object frames whose every cell is a symbolic real in [-10,1000] (zero/negative prices) or NaN by mask, prior selection a "
             "solver-chosen subset: membership of every ticker is proved equivalent to the documented predicate under each path condition; ranked selection "
             "proved to return min(n, eligible) tickers each beating every unselected eligible one; total-return statistic proved cell by cell.",
        technique="symbolic execution of bt/algos.py selection algos on symbolic pandas frames, z3 per path, concrete replay",
        ref="DESIGN.md §3 C14"),
    'C15': dict(
        text="Real weighting algos against live symbolic child weights and symbolic targets: equal/specified/scaled/dated weights, per-period delta limits, "
             "capped weights (ffn limit_weights executed symbolically), random weights for any RNG outcome (random.uniform a solver variable), TargetVol and "
             "PTE_Rebalance with a symbolic PSD covariance and a sqrt atom (non-linear, degree <= 6). WeighERC/WeighMeanVar numerical optimality not claimed.",
        technique="symbolic execution of bt/algos.py weighting algos, z3 (LRA/NRA) per path, concrete replay",
        ref="DESIGN.md §3 C15"),
    'C17': dict(
        text="FixedIncomeStrategy histories with symbolic quantities (grid coupons/costs) and the transposed configuration (symbolic coupons, costs, prices): "
             "notional per node type, notional weights, coupon and asymmetric holding-cost accrual, payment into parent cash on the next date exactly once, "
             "additive index with its fallbacks, SetNotional/Rebalance targets, RenormalizedFixedIncomeResult._price formula.",
        technique="symbolic execution of bt/core.py fixed-income paths and bt/algos.py, z3 per path, concrete replay",
        ref="DESIGN.md §3 C17"),
    'C18': dict(
        text="After symbolic backtests the real report accessors (weights, security_weights, positions, herfindahl_index, turnover, get_transactions, result "
             "prices) are proved equal cell by cell to the harness's own recomputation from an independent walk of the tree; ReplayTransactions round-trip; "
             "the fixed-income report configuration is checked by its concrete replay only (pandas object-dtype division differs from float64).",
        technique="symbolic execution of bt/backtest.py report accessors on symbolic histories, z3 per path, concrete replay",
        ref="DESIGN.md §3 C18"),
    'C19': dict(
        text="Construction recipes (children kinds, list/dict/parent= attachment, duplicate names, node re-use, flag pushes) enumerated exhaustively through "
             "solver choice points with structural invariants checked on each; lazy-vs-eager children and universe scoping proved as relations between two "
             "real Backtest.run executions for symbolic capital and symbolic last-date prices.",
        technique="bounded-exhaustive enumeration via solver choice points (structural part) + relational symbolic execution (lazy vs eager)",
        ref="DESIGN.md §3 C19"),
    'C20': dict(
        text="UpdateRisk sums (unit risk x position x multiplier, missing entries zero, history depth) on a nested tree with symbolic positions; HedgeRisks "
             "with exact and pseudo inverse, instrument multipliers, optional separate hedge strategy re-hedged on a second date: hedged risk proved zero / "
             "least-squares; Close/Roll/SelectActive through the real Backtest.run with solver-chosen close, roll and start dates.",
        technique="symbolic execution of bt/algos.py risk/close/roll algos, z3 per path, concrete replay",
        ref="DESIGN.md §3 C20"),
    'C11': dict(
        text="Symbolic non-interference: two backtests built from one template (stateful, nested, tie-ranking, random algos) run in a solver-chosen order give "
             "the same histories as run alone; the template's reachable state and every input-frame cell are identical before and after; run() twice changes "
             "nothing; `set` inside bt is replaced by a set with solver-chosen iteration order and two independently permuted runs must agree; random algos run "
             "on a symbolic RNG stream. Complementary concrete run in fresh interpreters under PYTHONHASHSEED 0..3.",
        technique="relational symbolic execution (two runs, solver-chosen order / set-iteration permutations / RNG stream), z3 per path; 4-seed subprocess run as complement",
        ref="DESIGN.md §3 C11"),
}

NOT_YET = "check not built yet in this session (planned in DESIGN.md §3); will move to checks when its harness lands"


def _notes():
    k = json.load(open(os.path.join(V, 'known_findings.json')))['findings']
    fixed = ['%s (%s)' % (f['commit'], f['property']) for f in k if f.get('status') == 'fixed']
    known = ['%s' % f['id'] for f in k if f.get('status') == 'known']
    return ('fix: commits in /repo: ' + ', '.join(fixed) + '. Known findings (known_findings.json): ' + ', '.join(known) +
            '. Exit codes of every check: 0 held on everything explored, 1 reproduced violation (VIOLATION line), 3 harness error. '
            'BT_REPO=<tree> points a check at another working tree (used for mutant testing in scratch worktrees).')


def main():
    props = [json.loads(l) for l in open(os.path.join(V, 'properties.jsonl'))]
    checks = []
    na = []
    for p in props:
        pid = p['id']
        if pid in CHECKS and os.path.exists(os.path.join(V, 'harness', pid + '.py')):
            c = CHECKS[pid]
            checks.append(dict(
                property_id=pid,
                quick_cmd='./bin/check %s quick' % pid,
                thorough_cmd='./bin/check %s thorough' % pid,
                evidence_file='evidence/%s.json' % pid,
                replay_cmd_template='./bin/check %s --replay {path}' % pid,
                engine='symbt',
                level_claimed=dict(category='model_checking', text=c['text'], design_ref=c['ref']),
                level_note=c.get('note', LEVEL_NOTE),
                technique=c['technique'],
            ))
        else:
            na.append(dict(property_id=pid, reason=CHECKS.get(pid, {}).get('na', NOT_YET)))
    m = dict(
        version=1,
        setup_cmd='./bin/setup',
        hooks=dict(guard='BT_VERIF', enable='none needed: checks load /repo/bt/*.py from source and rebind module globals at run time; no hook code in /repo',
                   baseline_off_cmd='cd /repo && /venv/bin/python -m pytest -ra -q -p no:cacheprovider --timeout=900 --continue-on-collection-errors',
                   source_commits=[], add_only=True),
        engines=[dict(name='symbt', path='symbt/', serves_properties=[c['property_id'] for c in checks],
                      kind_free_text='symbolic execution of the real Python source on exact rational-function values with z3 deciding every branch and obligation; concrete replay on unshimmed bt')],
        checks=checks,
        notes=_notes(),
        not_applicable=na,
    )
    json.dump(m, open(os.path.join(V, 'MANIFEST.json'), 'w'), indent=1)
    print('checks:', [c['property_id'] for c in checks], 'not_applicable:', len(na))


if __name__ == '__main__':
    main()
