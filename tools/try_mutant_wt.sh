#!/bin/bash
# usage: tools/try_mutant_wt.sh <Cxx/mk> <tier> <check id>...  -- applies the seeded patch in a scratch worktree (never /repo) and points the checks at it
M=$1; T=$2; shift 2
WT=/tmp/wtm/$(echo $M | tr / _)
HEAD=$(git -C /repo rev-parse HEAD)
rm -rf $WT; git -C /repo worktree prune; git -C /repo worktree add -q --detach $WT $HEAD || exit 9
P=/tmp/mut/$M/patch.diff; [ -f $P ] || P=/verif/seeded/$(echo $M | tr / -)/patch.diff
git -C $WT apply $P || { echo "patch does not apply"; git -C /repo worktree remove --force $WT; exit 9; }
for id in "$@"; do
  out=$(cd /verif && BT_REPO=$WT ./bin/check $id $T 2>&1); code=$?
  echo "== $M on $id exit=$code"; echo "$out" | grep -E "VIOLATION|HARNESS-ERROR|paths=" | cut -c1-300 | head -4
done
git -C /repo worktree remove --force $WT
