#!/bin/bash
# usage: tools/try_mutant.sh <patch.diff> <tier> <Cxx> [Cyy ...]   -- applies the patch to /repo, runs the checks, always reverts
P=$1; T=$2; shift 2
cd /repo || exit 9
git diff --quiet || { echo "/repo not clean"; exit 9; }
git apply "$P" || { echo "patch does not apply"; exit 9; }
trap 'git -C /repo checkout -- . ' EXIT
for id in "$@"; do
  out=$(cd /verif && ./bin/check $id $T 2>&1); code=$?
  echo "== $id exit=$code"; echo "$out" | grep -E "VIOLATION|HARNESS-ERROR|KNOWN-FINDING|paths=" | cut -c1-400 | head -8
done
